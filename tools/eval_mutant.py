"""Evaluate seeded mutants: confirm the demonstration in the scratch worktree, then run the registered
quick check against /repo with the patch applied (and undo it straight afterwards).

usage: eval_mutant.py <property> <worktree> <mutant-name> [--checks C01,C02]"""
import json
import os
import shutil
import subprocess
import sys


def sh(cmd, cwd=None, env=None, timeout=3000):
    p = subprocess.run(cmd, shell=True, cwd=cwd, env=env, capture_output=True, text=True, timeout=timeout)
    return p.returncode, (p.stdout + p.stderr)


def main():
    pid, wt, name = sys.argv[1], sys.argv[2], sys.argv[3]
    checks = [pid]
    if "--checks" in sys.argv:
        checks = sys.argv[sys.argv.index("--checks") + 1].split(",")
    diff = os.path.join(wt, "MUTANTS", f"{name}.diff")
    demo = os.path.join(wt, "MUTANTS", f"{name}_demo.py")
    env = dict(os.environ, PYTHONPATH=wt, PYTHONHASHSEED="0")
    out = {"property": pid, "mutant": name}
    sh("git checkout -- .", cwd=wt)
    rc0, o0 = sh(f"/venv/bin/python {demo}", cwd=wt, env=env)
    rca, oa = sh(f"git apply {diff}", cwd=wt)
    rc1, o1 = sh(f"/venv/bin/python {demo}", cwd=wt, env=env)
    sh("git checkout -- .", cwd=wt)
    out["demo_clean_rc"], out["demo_mutant_rc"], out["apply_rc"] = rc0, rc1, rca
    out["demo_mutant_tail"] = o1[-400:]
    # our checks against the code with the patch applied: the scratch worktree is put first on the path
    # (equivalent to applying the patch to /repo, without disturbing other work that imports from /repo)
    sh(f"git apply {diff}", cwd=wt)
    rcw, ow = sh("/venv/bin/python -c 'import syne_tune; print(syne_tune.__file__)'", cwd="/verif", env=env)
    out["syne_tune_used"] = ow.strip().splitlines()[-1] if ow.strip() else ""
    out["repo_apply_rc"] = 0
    res = {}
    try:
        for c in checks:
            rc, o = sh(f"/venv/bin/python -m harness.check {c} --tier quick", cwd="/verif", env=env)
            viol = [l for l in o.splitlines() if l.startswith("VIOLATION") or l.strip().startswith("signature")]
            res[c] = {"rc": rc, "lines": viol[:8], "tail": [l for l in o.splitlines() if l.startswith("[")][-1:]}
    finally:
        sh("git checkout -- .", cwd=wt)
    out["checks"] = res
    print(json.dumps(out, indent=1))
    dst = f"/verif/seeded/{pid}-{name}"
    os.makedirs(dst, exist_ok=True)
    shutil.copy(diff, os.path.join(dst, "patch.diff"))
    shutil.copy(demo, os.path.join(dst, "demo.py"))
    notes = os.path.join(wt, "MUTANTS", "notes.md")
    if os.path.exists(notes):
        shutil.copy(notes, os.path.join(dst, "notes.md"))
    with open(os.path.join(dst, "meta.json"), "w") as f:
        json.dump({"breaks_property": pid, "mutant": name,
                   "confirmed": {"demo_exit_on_unmodified_tree": rc0, "demo_exit_with_patch": rc1, "patch_applies": rca == 0},
                   "what_ran": [f"demo in scratch worktree with PYTHONPATH=<worktree>",
                                *[f"/venv/bin/python -m harness.check {c} --tier quick  (patch applied in the scratch worktree, which is put first on PYTHONPATH)" for c in checks]],
                   "check_results": {c: {"exit": r["rc"], "violation_lines": r["lines"]} for c, r in res.items()},
                   "needs_to_manifest": "see notes.md"}, f, indent=1)


if __name__ == "__main__":
    main()
