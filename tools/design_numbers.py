"""Prints the per-property numbers of DESIGN.md section 6 from the evidence files of the last run."""
import json, os
E = os.path.join(os.path.dirname(os.path.dirname(os.path.abspath(__file__))), "evidence")
for f in sorted(os.listdir(E)):
    e = json.load(open(os.path.join(E, f)))
    c = e["coverage"]
    st = c.get("states", 0)
    print(f"{e['property_id']} tier={e['tier']} seed={e['seed']} wall={e['wall_s']:.0f}s states={st/1e6:.2f}M traces={c.get('traces_validated_against_impl')} "
          f"replays={c.get('replays_into_impl')} models={len(c.get('models', []))} known={c.get('known_finding_hits')} violations={e.get('violations')}")
