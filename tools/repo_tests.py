"""Runs the pinned baseline test command of /repo and compares with the stable-pass list (/root/.vp/BASELINE.json).
usage: /venv/bin/python tools/repo_tests.py [junit-out]   -> prints the stable tests that did not pass"""
import json, subprocess, sys, tempfile, os
import xml.etree.ElementTree as ET

b = json.load(open("/root/.vp/BASELINE.json"))
out = sys.argv[1] if len(sys.argv) > 1 else os.path.join(tempfile.gettempdir(), "repo_junit.xml")
cmd = b["cmd"].replace("<file>", out)
env = dict(os.environ)
env.pop("SYNE_TUNE_VERIF", None)
subprocess.run(cmd, shell=True, env=env, stdout=subprocess.DEVNULL, stderr=subprocess.DEVNULL)
passed = set()
for tc in ET.parse(out).getroot().iter("testcase"):
    if not any(ch.tag in ("failure", "error", "skipped") for ch in tc):
        passed.add(f"{tc.get('classname')}::{tc.get('name')}")
missing = [t for t in b["stable_pass"] if t not in passed]
print(f"stable_pass={len(b['stable_pass'])} passed_now={len(passed)} stable_not_passing={len(missing)}")
for t in missing:
    print("  NOT PASSING:", t)
sys.exit(1 if missing else 0)
