#!/bin/bash
# usage: run_all.sh <seed> [tier]  -- runs every claimed check once, prints one line per check
seed=${1:-0}; tier=${2:-quick}
cd "$(dirname "$0")/.."
for p in $(/venv/bin/python -c "import json;print(' '.join(c['property_id'] for c in json.load(open('MANIFEST.json'))['checks']))"); do
  s=$(date +%s)
  out=$(VERIF_SEED=$seed /venv/bin/python -m harness.check $p --tier $tier 2>&1)
  rc=$?
  e=$(date +%s)
  echo "$p seed=$seed rc=$rc t=$((e-s))s $(echo "$out" | grep -c '^VIOLATION') violations; $(echo "$out" | grep -c '^KNOWN-FINDING') known"
  if [ $rc -ne 0 ]; then echo "$out" | grep -v "Warning\|pip install\|Multi Obj\|almost\|YAHPO\|h5py\|everything" | tail -12; fi
done
