#!/bin/bash
# usage: run_some.sh <tier> "<seeds>" <id> [<id> ...]  -- runs the named checks for every seed, one line per run
tier=$1; seeds=$2; shift 2
cd "$(dirname "$0")/.."
for seed in $seeds; do for p in "$@"; do
  s=$(date +%s)
  out=$(VERIF_SEED=$seed /venv/bin/python -m harness.check $p --tier $tier 2>&1)
  rc=$?
  e=$(date +%s)
  echo "$p seed=$seed rc=$rc t=$((e-s))s $(echo "$out" | grep -c '^VIOLATION') violations; $(echo "$out" | grep -c '^KNOWN-FINDING') known"
  if [ $rc -ne 0 ]; then echo "$out" | grep -v "Warning\|pip install\|Multi Obj\|almost\|YAHPO\|h5py\|everything\|adding trial" | tail -12; fi
done; done
