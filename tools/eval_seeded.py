"""Re-evaluate the seeded changes kept under /verif/seeded/<id>/ against the CURRENT checks and the CURRENT /repo HEAD.

For each seeded change: a scratch worktree of /repo (outside /repo and /verif) is created, the demonstration is run
without and with the patch, the registered quick check(s) are run with the patched tree first on PYTHONPATH, the result is
written to seeded/<id>/meta.json and the worktree is removed.

usage: eval_seeded.py [ids...]      (default: all)"""
import json
import os
import shutil
import subprocess
import sys
import tempfile

SEEDED = "/verif/seeded"
EXTRA_CHECKS = {"C06-m6": ["C06", "C07"], "C13-m4": ["C13", "C14"], "C20-m3": ["C20", "C05"], "C02-m1": ["C02", "C10"], "C13-m1": ["C13", "C05"], "C15-m2": ["C15", "C19"], "C20-m2": ["C20", "C01"]}


def sh(cmd, cwd=None, env=None, timeout=3600):
    p = subprocess.run(cmd, shell=True, cwd=cwd, env=env, capture_output=True, text=True, timeout=timeout)
    return p.returncode, p.stdout + p.stderr


def one(mid):
    d = os.path.join(SEEDED, mid)
    pid = mid.split("-")[0]
    wt = tempfile.mkdtemp(prefix=f"seeded_{mid}_", dir="/tmp")
    os.rmdir(wt)
    sh(f"git -C /repo worktree add --detach {wt} HEAD -q")
    try:
        env = dict(os.environ, PYTHONPATH=wt, PYTHONHASHSEED="0")
        rc0, _ = sh(f"/venv/bin/python {d}/demo.py", cwd=wt, env=env)
        rca, oa = sh(f"git apply {d}/patch.diff", cwd=wt)
        rc1, o1 = sh(f"/venv/bin/python {d}/demo.py", cwd=wt, env=env)
        checks = EXTRA_CHECKS.get(mid, [pid])
        res = {}
        for c in checks:
            rc, o = sh(f"/venv/bin/python -m harness.check {c} --tier quick", cwd="/verif", env=env)
            lines = [l.strip() for l in o.splitlines() if l.startswith("VIOLATION") or l.strip().startswith("signature")]
            res[c] = {"exit": rc, "violation_lines": lines[:6]}
        meta_path = os.path.join(d, "meta.json")
        old = json.load(open(meta_path)) if os.path.exists(meta_path) else {}
        notes = ""
        if os.path.exists(os.path.join(d, "notes.md")):
            notes = open(os.path.join(d, "notes.md")).read()
        meta = {
            "breaks_property": pid, "mutant": mid,
            "needs_to_manifest": old.get("needs_to_manifest", "see notes.md (written by the sub-agent that seeded the change)"),
            "confirmed": {"patch_applies_to_repo_head": rca == 0, "demo_exit_on_unmodified_tree": rc0, "demo_exit_with_patch": rc1},
            "what_ran": ["demo.py in a scratch worktree of /repo HEAD with PYTHONPATH=<worktree>, without and with patch.diff"]
                        + [f"/venv/bin/python -m harness.check {c} --tier quick  (patched worktree first on PYTHONPATH)" for c in checks],
            "check_results": res,
            "caught_by": [c for c, r in res.items() if r["exit"] == 1],
        }
        json.dump(meta, open(meta_path, "w"), indent=1)
        return mid, rc0, rc1, {c: r["exit"] for c, r in res.items()}
    finally:
        sh(f"git -C /repo worktree remove --force {wt}")
        shutil.rmtree(wt, ignore_errors=True)


if __name__ == "__main__":
    ids = sys.argv[1:] or sorted(os.listdir(SEEDED))
    for mid in ids:
        print(*one(mid), flush=True)
