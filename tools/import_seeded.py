"""Copies the deliverables of a seeding sub-agent (<worktree>/out/<m>/{patch.diff,demo.py,notes.md}) to /verif/seeded/<PID>-<m>/.
usage: import_seeded.py <PID> <worktree>"""
import os, shutil, sys
pid, wt = sys.argv[1], sys.argv[2]
for m in sorted(os.listdir(os.path.join(wt, "out"))):
    src = os.path.join(wt, "out", m)
    if not os.path.isfile(os.path.join(src, "patch.diff")):
        continue
    dst = f"/verif/seeded/{pid}-{m}"
    os.makedirs(dst, exist_ok=True)
    for f in ("patch.diff", "demo.py", "notes.md"):
        if os.path.exists(os.path.join(src, f)):
            shutil.copy(os.path.join(src, f), os.path.join(dst, f))
    print("imported", dst)
