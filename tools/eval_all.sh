#!/bin/bash
# usage: eval_all.sh <property> [checks]   evaluates m1 and m2 of /tmp/wt/<property>
p=$1; checks=${2:-$1}
for m in m1 m2; do
  /venv/bin/python /verif/tools/eval_mutant.py $p /tmp/wt/$p $m --checks $checks > /tmp/wt/eval_${p}_${m}.json 2>&1
done
