"""Regenerates /verif/MANIFEST.json from the table below (run after adding / removing a check)."""
import json
import os

HERE = os.path.dirname(os.path.dirname(os.path.abspath(__file__)))
TUNER_NOTE = ("Trusted: TLC 1.8, the scripted backend/scheduler of harness/drivers (LocalBackend semantics), the projection "
              "of recorded calls to TunerLoop events. Bounds: small constants in the exhaustive runs; traces explore what TLC "
              "generated for this seed. SageMaker / Python backends not run.")
ASYNC_NOTE = ("Trusted: TLC 1.8, harness/drivers/asynchb.py (reads bracket, milestone, resume_from, rung sizes and the PASHA cap "
              "from the scheduler's attributes). Metric values are integer-valued floats; exact ties accept both outcomes. "
              "Bounds: <= 4 trials, <= 3 concurrently running, <= 3 rung levels in exhaustive runs.")
CLAIMED = {
 "C17": ("ResultsLog.tla: monitor over handed results, delivered results (with decision), the stored table, its read-back, the two best-configuration reports and the running statistics, with IEEE semantics for NaN (RowPerDelivered, ReadBackEqual, BestIsArgOpt, StatsMatch). ResultsLog_MC feeds a transcription of MetricsStatistics.add / print_best_metric_found with every sequence of <= 5-6 handed results over {0,1,2,NaN}, both modes. Binding: the TLC-generated TunerLoop schedules are executed by the real Tuner.run with a real StoreResultsCallback (update interval 0 and infinity), results.csv.zip is read back with pandas, Tuner.best_config() and load_experiment(...).best_config() are called, TuningStatus statistics are read, and the resulting trace is judged by TLC in ResultsLog_Trace.", "5.1, 6 C17", "Trusted: TLC 1.8, harness/props/c17.py and the scripted collaborators of harness/drivers/tunerloop.py. Integer-valued metrics and NaN; float-text fidelity beyond that is not explored.", "ResultsLog"),
 "C18": ("ReportChannel.tla: token-level writer (report = TAG LB payload RB NL, noise = any tokens without TAG, rejected report = nothing) and the transcription of the reader's regular expression; TLC checks ExtractedEqualsReported and CounterStrictlyIncreasing for every stream of <= 3-4 chunks over the 7-token alphabet (~600k streams). Binding: TLC-generated chunk sequences are concretised (tokens -> characters, payloads inside real dictionaries with nested lists/dicts, NaN/inf, numpy scalars, braces/quotes/newlines/unicode/the tag itself, bad reports inserted) and pushed through the real Reporter and retrieve(); the token abstraction of the captured stdout and what retrieve() returned are judged by TLC in ReportChannel_Trace.", "5.7, 6 C18", "Trusted: TLC 1.8, harness/props/c18.py (tokenizer, concretisation, payload comparison after the numpy -> number map). The spec decides framing, order, exactly-once, counters, rejection; JSON value fidelity is compared by the driver and handed to the spec as equality bits.", "ReportChannel"),
 "C19": ("Pareto.tla defines dominance, the Pareto set, the layer decomposition, valid non-dominated sorts (every index once, earlier layers first, truncation by whole layers) and the set of decisions MOASHA may take (rank of the new element under some valid sort against 1/rf). Pareto_MC enumerates every point set of 2-5 points in small grids (definitional ASSUMEs) and emits (X, mask, layers) rows that are replayed into the real pareto_efficient; every real call of pareto_efficient / nondominated_sort (all dims, max_items) and every real MOASHA decision along TLC-generated report schedules (1-2 brackets, per-metric modes, rf 2/3) is judged by TLC in Pareto_Trace.", "5.6, 6 C19", "Trusted: TLC 1.8, harness/props/c19.py (reads the recorded vectors of the rung a report reaches from the scheduler). Integer-valued objectives; the epsilon-net order inside a layer is not constrained.", "Pareto"),
 "C10": ("SimBackend.tla: event heap, simulated clock, resume offsets and monotonicity repair transcribed; TLC explores all sequences of <= 8-11 back-end calls (start, fetch, pause, stop, resume, sleep) for tables with non-monotone elapsed columns, 0 and non-0 delays, checkpointing and max_resource_attr on/off, fixed and drawn seeds under ClockMonotone, ResultsFromTable, LevelsConsecutive, StampFormula, WaitChargedOnce, NoEventAfterStop; TLC call sequences are issued to the real UserBlackboxBackend over a BlackboxTabular built from the same table and every returned result (level, metric, time stamp in micro-seconds) and the clock after each call is validated by TLC against SimBackend_Trace.", "5.2, 6 C10", "Trusted: TLC 1.8, harness/drivers/simbackend.py (frozen real-time clock, tick projection). Dyadic delays / elapsed times; the table elapsed time is taken after the documented >= 0.01 s monotonicity repair. BlackboxRepositoryBackend and surrogates not run.", "SimBackend"),
 "C16": ("TwinRestore_MC: restore is a stuttering step on the declared abstract searcher state and the restored twin has the same continuation for every history and snapshot point (TLC). Binding: TLC-generated histories with Restore events (Searcher_Gen) drive twin schedulers; twin B is replaced at the chosen points by dill.loads(dill.dumps(scheduler)) (every scheduler kind) or by searcher.clone_from_state(pickle round trip of get_state()) (random, grid, GP single- and multi-fidelity); every output is compared with the uninterrupted twin and the restored twin's trace is validated by TLC against Searcher_Trace (SameContinuation, NoRepeat, NoneOnlyWhenExhausted).", "5.5, 5.9, 6 C16", "Trusted: TLC 1.8, harness/drivers/searcher.py. The clone is installed with configure_scheduler, the way a scheduler installs a searcher object. GP twins compare suggestions exactly (same process, same parameter ordering).", "Searcher / TwinRestore"),
 "C06": ("Searcher.tla: initial-point queue (mid-point imputation and de-duplication computed by the specification from the raw points_to_evaluate), exclusion, exhaustion, exactly-once enumeration of a finite space (AllKeysTypedInDomain, ConstantsUnchanged, InitialFirstInOrder, NoRepeat, NoneOnlyWhenExhausted, ExactlyOnce checked by TLC on an abstract legal searcher); environment histories (suggest / result / failure / completion interleavings) generated by TLC from Searcher_Gen are driven into scheduler.suggest of FIFO(random, grid, bayesopt), Hyperband(random, bayesopt, hypertune; stopping and promotion), synchronous Hyperband, DEHB, PBT, regularised evolution; every suggestion is validated by TLC against Searcher_Trace.", "5.5, 6 C06", "Trusted: TLC 1.8, harness/drivers/searcher.py (value -> index projection, type / key / constant bits). Finite spaces from randint / choice / ordinal / finrange + constants; continuous domains are covered under C07 only.", "Searcher"),
 "C05": ("SyncHB.tla: TLC explores every order in which the pending jobs of the open brackets return and every subset (<= 2) of failing jobs for geometric and custom rung systems, both modes (RungFilledByDistinctTrials, ResumeOnlyAfterRungComplete, PromotedAreTopK with failures last, NextJobNeverBlocks incl. ENABLED-suggest, BracketsCycleOffsets, RungAccounting); TLC schedules are replayed into real SynchronousHyperbandScheduler objects and every job (bracket, rung, slot, level, trial, resume-vs-start, max_resource_attr), decision and removable list is validated by TLC against SyncHB_Trace.", "5.4, 6 C05", "Trusted: TLC 1.8, harness/drivers/synchb.py (reads the pending slot of a suggested trial from the scheduler). Integer-valued metrics, ties either way. DEHB slot system not driven in this revision.", "SyncHB"),
 "C01": ("TunerLoop.tla: TLC exhausts every interleaving of worker emit/exit/fail/external-stop with the critical sections of Tuner.run for small constants under WorkerBudget, IdsInSequence, LifeCycle, ResumeOnlyPaused, CallbackProtocol; TLC-generated behaviours (random walks + BFS transition cover) are compiled to environment scripts and executed by the REAL Tuner.run on a scripted poll-type backend; every recorded run is validated by TLC against TunerLoop_Trace (same event operators, same invariants).", "5.1, 6 C01", TUNER_NOTE, "TunerLoop"),
 "C02": ("Same machinery as C01 with the delivery monitor: per run the delivered results must be the gap-free prefix of the reports stamped (run, index) by the scripted worker (DeliveredIsPrefix, NothingAfterDecision, ResumeStartsNewRun, CompleteMeansAll); poll batches, kills and resumes are placed by TLC.", "5.1, 6 C02", TUNER_NOTE, "TunerLoop"),
 "C03": ("Quantile_MC: the code's quantile algorithm equals the numpy definition for all small lists (TLC ASSUMEs, rows replayed into the real Rung.quantile). AsyncHB_MC: every report order of concurrently running trials, every metric table over 3-4 values, both modes, 1-2 brackets shared / per bracket, RUSH thresholds, under EnterRungOnce, DecideOnlyAtOwnRungs, StopAtMax, ContinueIffQuantile; TLC schedules replayed into real HyperbandScheduler objects, decisions and rung sizes validated by TLC against AsyncHB_Trace.", "5.3, 6 C03", ASYNC_NOTE, "AsyncHB"),
 "C04": ("AsyncHB_MC for promotion / PASHA / cost-aware / RUSH(0) rung systems: PauseExactlyAtMilestone, NeverBeyondCap, CapMonotone, PromoteOnlyEligible, PromoteBestOfHighest, RunToNextRung, NewTrialIffNoneEligible over every interleaving of suggest and report; with/without max_resource_attr and training-script checkpointing; TLC schedules replayed into real HyperbandScheduler objects, suggestions (resumed trial, resume_from, milestone, max_resource_attr, bracket, cap) validated by TLC.", "5.3, 6 C04", ASYNC_NOTE + " PASHA's cap-growth trigger is logged, not predicted; RUSH promotion only with 0 threshold candidates.", "AsyncHB"),
 "C12": ("TunerLoop_MC with count-based criteria, wait_trial_completion and synchronous scheduling on/off, failure limit, exhaustion (NoStartAfterStop, EndsOnCriterion, NothingRunningAtReturn, CountersMatch) plus liveness <>(pc = done) under fairness without state constraint; replay through the real Tuner.run with real StoppingCriterion objects, traces validated by TLC.", "5.1, 6 C12", TUNER_NOTE, "TunerLoop"),
 "C13": ("Fault actions W_Fail / W_ExtStop placed by TLC at every observation point of every run; invariants FailureContained, FailureLimit, FailureNotifiedOnce on the model and on every trace of the real Tuner.run.", "5.1, 6 C13", TUNER_NOTE, "TunerLoop"),
 "C20": ("Checkpoint store of TunerLoop (copy / delete / resume events) with delete_checkpoints on; invariants DeleteOnlyWhenDead, CopySourceExists, ResumeSourceExists on the model and on traces of the real Tuner with an in-memory checkpoint-logging backend.", "5.1, 6 C20", TUNER_NOTE, "TunerLoop"),
}
NOT_APPLICABLE = {
 "C08": "identity between floating-point linear-algebra expressions; no state machine, oracle needs reals (DESIGN.md section 7)",
 "C09": "oracle is a derivative of real-valued functions; outside TLA+/TLC (DESIGN.md section 7)",
}
ALL = [f"C{i:02d}" for i in range(1, 21)]

checks = []
for pid in sorted(CLAIMED):
    text, ref, note, spec = CLAIMED[pid]
    checks.append({
        "property_id": pid,
        "quick_cmd": f"/venv/bin/python -m harness.check {pid} --tier quick",
        "thorough_cmd": f"/venv/bin/python -m harness.check {pid} --tier thorough",
        "evidence_file": f"/verif/evidence/{pid}.json",
        "replay_cmd_template": f"/venv/bin/python -m harness.check {pid} --replay {{path}}",
        "engine": "tlc+trace-validation",
        "level_claimed": {"category": "model_checking", "text": text, "design_ref": ref},
        "level_note": note,
        "technique": f"explicit TLA+ spec ({spec}) model-checked by TLC + TLC-generated schedules replayed into the real code + TLC trace validation",
    })
na = [{"property_id": p, "reason": r} for p, r in NOT_APPLICABLE.items()]
for p in ALL:
    if p not in CLAIMED and p not in NOT_APPLICABLE:
        na.append({"property_id": p, "reason": "check not built yet in this revision (planned, see DESIGN.md section 11.1)"})
m = {
 "version": 1,
 "setup_cmd": "/venv/bin/python -m harness.setup",
 "hooks": {"guard": "SYNE_TUNE_VERIF",
           "enable": "no repository hooks are needed: all observation points are public methods or attributes (DESIGN.md section 12)",
           "baseline_off_cmd": "cd /repo && /venv/bin/python -m pytest -ra -q -p no:cacheprovider --timeout=900 --continue-on-collection-errors",
           "source_commits": [], "add_only": True},
 "engines": [{"name": "tlc+trace-validation", "path": "/verif/harness", "serves_properties": sorted(CLAIMED),
              "kind_free_text": "TLA+ specifications in /verif/specs model-checked by TLC; behaviours generated by TLC are driven through the real code; recorded traces validated by TLC"}],
 "checks": checks,
 "not_applicable": na,
 "notes": "Exit 0 = held on everything explored (KNOWN-FINDING lines for listed findings), 1 = VIOLATION, 2 = machinery failure.",
}
json.dump(m, open(os.path.join(HERE, "MANIFEST.json"), "w"), indent=1)
print("claimed:", sorted(CLAIMED), "not_applicable:", [x["property_id"] for x in na])
