"""Anti-vacuity: per-action coverage of the exhaustive TLC runs.  For every specification family the union over its
constants tables of 'distinct states reached by action A' is written to evidence-like JSON (coverage/<Spec>.json); an
action of the PROGRAM / ENVIRONMENT layer that is never taken in ANY table is reported (exit 1).

usage: /venv/bin/python tools/coverage_report.py [TunerLoop|SyncHB|AsyncHB ...]"""
import json
import os
import sys

sys.path.insert(0, os.path.dirname(os.path.dirname(os.path.abspath(__file__))))
from harness import tlc  # noqa: E402

OUT = os.path.join(os.path.dirname(os.path.dirname(os.path.abspath(__file__))), "coverage")


def tunerloop():
    from harness import tuner_models as M
    tot = {}
    for name, c in M.mc_configs("quick").items():
        path = M.write_mc_cfg(c, [])
        try:
            r = tlc.run("TunerLoop_MC", path, workers=16, timeout=3000, coverage=True)
        finally:
            os.unlink(path)
        for a, n in r.coverage.items():
            tot.setdefault(a, {})[name] = n
    return tot


def synchb():
    from harness import synchb_models as S
    from harness.props import c05
    import tempfile
    tot = {}
    for name, c in c05.tables("quick").items():
        fd, path = tempfile.mkstemp(prefix="SyncHB_MC_", suffix=".cfg")
        os.close(fd)
        tlc.write_cfg(path, spec="Spec", constants=c, invariants=[], constraints=["Workers"])
        try:
            r = tlc.run("SyncHB_MC", path, workers=16, timeout=1800, coverage=True)
        finally:
            os.unlink(path)
        for a, n in r.coverage.items():
            tot.setdefault(a, {})[name] = n
    return tot


FAMILIES = {"TunerLoop": tunerloop, "SyncHB": synchb}

if __name__ == "__main__":
    os.makedirs(OUT, exist_ok=True)
    bad = []
    for fam in (sys.argv[1:] or list(FAMILIES)):
        tot = FAMILIES[fam]()
        json.dump(tot, open(os.path.join(OUT, f"{fam}.json"), "w"), indent=1, sort_keys=True)
        for a, per in sorted(tot.items()):
            s = sum(per.values())
            print(f"{fam:10s} {a:22s} {s:>10d}  tables: {sum(1 for v in per.values() if v)}/{len(per)}")
            if s == 0:
                bad.append((fam, a))
    for fam, a in bad:
        print(f"NEVER TAKEN: {fam}.{a}")
    sys.exit(1 if bad else 0)
