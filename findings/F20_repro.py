"""F20 (C04): PASHA with two brackets sharing one rung system raises IndexError.

A trial of the second bracket starts at the second rung level and never gets an entry in the first rung.  When it reports
at the second level, PASHA compares the rankings of the top two rungs and looks the trial up in the groups of the lower
rung (_evaluate_soft_ranking): IndexError, raised from on_trial_result.

Stand-alone: /venv/bin/python findings/F20_repro.py   (exit 1 = defect present)"""
import sys, os
sys.path.insert(0, os.path.dirname(os.path.dirname(os.path.abspath(__file__))))
from harness.drivers import asynchb as D

conf = {"levels": [1, 2, 4], "maxt": 8, "nbr": 2, "perbr": False, "type": "pasha", "min": True, "mra": True, "ckpt": True,
        "nthr": 0, "sd": "none", "myopic": False, "cap0": 2}
crashed = None
for seed in range(8):
    ep = D.Episode(conf, seed=seed)
    for step in range(30):
        if ep.crashed:
            break
        s = ep.suggest()
        for t in list(ep.running()):
            while ep.state.get(t) == "running" and not ep.crashed:
                ep.report(t, (3 * t + 1) % 2, 0)
    crash = next((e for e in ep.ev if e["a"] == "Crash"), None)
    if crash:
        crashed = (seed, crash)
        break
print("crash:", crashed)
sys.exit(1 if crashed else 0)
