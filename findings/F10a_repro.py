"""F10a (C07): a configuration space with a quantised domain cannot be written to its JSON form and read back.
Stand-alone: /venv/bin/python findings/F10a_repro.py  (exit 1 = defect present)"""
import sys
sys.modules.setdefault("yahpo_gym", None); sys.modules.setdefault("ConfigSpace", None)
from syne_tune.config_space import qrandint, quniform, config_space_to_json_dict, config_space_from_json_dict
bad = 0
for dom in (qrandint(0, 10, 2), quniform(1.0, 2.0, 0.25)):
    space = {"h": dom}
    try:
        back = config_space_from_json_dict(config_space_to_json_dict(space))
        ok = back["h"] == dom
    except Exception as e:
        print(type(dom).__name__, "quantised:", repr(e)[:120]); ok = False
    bad += not ok
sys.exit(1 if bad else 0)
