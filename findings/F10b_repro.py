"""F10b (C07): with an active sub-range of a (non-binary) categorical, a vector INSIDE get_ndarray_bounds() whose one-hot
coordinates tie decodes to an inactive category.   exit 1 = defect present"""
import sys
sys.modules.setdefault("yahpo_gym", None); sys.modules.setdefault("ConfigSpace", None)
import numpy as np
from syne_tune.config_space import choice
from syne_tune.optimizer.schedulers.searchers.utils import make_hyperparameter_ranges
space = {"h": choice(["red", "green", "blue"])}
h = make_hyperparameter_ranges(space, active_config_space={"h": choice(["green", "blue"])})
b = h.get_ndarray_bounds()
x = np.array([lo for lo, hi in b])            # the lower corner of the search box
cfg = h.from_ndarray(x)
print("bounds", b, "decoded", cfg)
sys.exit(1 if cfg["h"] == "red" else 0)
