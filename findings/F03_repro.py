"""F03 (C02): a report written after the last poll of a run that gets PAUSED is delivered after the resume.
Stand-alone: /venv/bin/python findings/F03_repro.py   (exit 1 = defect present)"""
import sys
from syne_tune.backend.trial_backend import TrialBackend
from syne_tune.backend.trial_status import Status
from syne_tune.constants import ST_WORKER_TIMESTAMP


class B(TrialBackend):
    """LocalBackend-like: append-only stdout, pause flag, status from the process."""
    def __init__(self):
        super().__init__()
        self.out, self.paused, self.ts = {}, set(), 0
    def emit(self, t, run, idx):
        self.ts += 1
        self.out[t].append({"run": run, "idx": idx, ST_WORKER_TIMESTAMP: self.ts})
    def _all_trial_results(self, ids):
        return [self._trial_dict[t].add_results(metrics=list(self.out[t]),
                status=Status.paused if t in self.paused else Status.in_progress, training_end_time=None) for t in ids]
    def _schedule(self, trial_id, config): self.out.setdefault(trial_id, [])
    def _pause_trial(self, trial_id, result): self.paused.add(trial_id)
    def _resume_trial(self, trial_id): self.paused.discard(trial_id)


b = B()
b.start_trial({"x": 1})
b.emit(0, 1, 1)
_, res = b.fetch_status_results([0])           # the tuner sees (run 1, report 1) and decides PAUSE
b.emit(0, 1, 2)                                # the script is still running: one more report before the kill
b.pause_trial(0)
b.resume_trial(0)
b.emit(0, 2, 1)                                # first report of the new run
_, res = b.fetch_status_results([0])
got = [(r["run"], r["idx"]) for _, r in res]
print("delivered after resume:", got)
sys.exit(1 if (1, 2) in got else 0)
