"""F17 (C13): DEHB ends the experiment when jobs of its first bracket fail.

The slot of a failed job holds no trial id.  When the completed rung of the very first bracket has fewer valid results
than the next rung has slots, the promotion for the slot that would take the failed entry finds no parent, reports
the job as failed ("so that the bracket is not blocked") and suggest() returns None.  Tuner.run reads None as "search
space exhausted" and stops starting trials.

Stand-alone: /venv/bin/python findings/F17_repro.py   (exit 1 = defect present)"""
import sys, os
sys.path.insert(0, os.path.dirname(os.path.dirname(os.path.abspath(__file__))))
from harness.drivers import synchb as D

conf = {"sys": [[(3, 1), (2, 2), (1, 4)], [(2, 2), (1, 4)], [(1, 4)]], "min": True, "mra": True, "de": True, "pr": True}
ep = D.Episode(conf, seed=0)
for _ in range(3):
    ep.suggest()          # trials 0, 1, 2 fill the first rung (3 slots, level 1)
ep.fail(0)
ep.fail(1)                # two of three jobs crash
ep.report(2, 1)           # the third one reports at its milestone: the rung is complete
ep.suggest()              # promotion of the best entry: resumes trial 2
ep.suggest()              # promotion for the second slot of the next rung (size 2): only failed entries are left
for e in ep.ev:
    print(e)
refused = any(e["a"] == "NoJob" for e in ep.ev)
print("suggest() returned None although the configuration space is continuous" if refused else "not reproduced")
sys.exit(1 if refused else 0)
