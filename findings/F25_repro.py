"""F25: string configuration values that pandas treats as NA tokens come back as NaN from load_experiment."""
import os, sys, tempfile
os.environ["SYNETUNE_FOLDER"] = tempfile.mkdtemp(prefix="f25_")
sys.path.insert(0, "/verif")
try:
    from harness import shim  # noqa
except Exception:
    pass
from types import SimpleNamespace
from datetime import datetime
from pathlib import Path
import pandas as pd
from syne_tune.results_callback import StoreResultsCallback
from syne_tune.backend.trial_status import Trial
from syne_tune.experiments import load_experiment
from syne_tune.util import experiment_path

name = "f25-exp"
path = experiment_path(tuner_name=name)
Path(path).mkdir(parents=True, exist_ok=True)
cb = StoreResultsCallback()
cb.on_tuning_start(SimpleNamespace(tuner_path=Path(path), results_update_interval=1e9))
cfgs = [{"reg": "None", "lr": 0.1}, {"reg": "l2", "lr": 0.2}, {"reg": "NA", "lr": 0.3}]
for t, c in enumerate(cfgs):
    cb.on_trial_result(Trial(t, c, datetime.now()), "InProgress", {"loss": 1.0 / (t + 1), "epoch": 1}, "CONTINUE")
cb.on_tuning_end()
exp = load_experiment(name, download_if_not_found=False, load_tuner=False)
back = list(exp.results["config_reg"])
print("written :", [c["reg"] for c in cfgs])
print("read    :", back)
bad = [(a["reg"], b) for a, b in zip(cfgs, back) if a["reg"] != b]
if bad:
    print("VIOLATED: configuration values changed by reading the table back:", bad)
    sys.exit(1)
print("ok")
