"""F09 (C13): synchronous Hyperband resumes a failed trial when too few valid results remain.
Stand-alone: PYTHONPATH=/verif /venv/bin/python findings/F09_repro.py   (exit 1 = defect present)"""
import sys, os
sys.path.insert(0, os.path.dirname(os.path.dirname(os.path.abspath(__file__))))
from harness.drivers import synchb as D

conf = {"sys": [[(3, 1), (2, 2), (1, 3)]], "min": True, "mra": True}
ep = D.Episode(conf, seed=0)
for _ in range(3):
    ep.suggest()
ep.report(0, 1)         # trial 0 reports at its milestone
ep.fail(1)              # trials 1 and 2 crash
ep.fail(2)
ep.suggest()
ep.suggest()            # the second slot of rung 2 can only be filled with a failed trial
resumed = [e["t"] for e in ep.ev if e["a"] == "Job" and not e["isnew"]]
print("resumed trials:", resumed, "(failed: 1, 2)")
sys.exit(1 if any(t in (1, 2) for t in resumed) else 0)
