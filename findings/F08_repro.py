"""F08 (C20): PopulationBasedTraining starts a new trial from a checkpoint that has been deleted.

on_trial_result queues (source trial, new config) on _trial_decisions_stack when a trial of the lower quantile is
replaced; suggest() pops the entry later.  In between the SOURCE may itself be stopped (it reaches max_t, or it falls
into the lower quantile): with delete_checkpoints=True the back-end deletes its checkpoint on stop_trial, and the next
suggest() returns start_suggestion(config, checkpoint_trial_id=<source>) for a checkpoint that no longer exists.  The
LocalBackend.copy_checkpoint then raises FileNotFoundError (shutil.copytree), which aborts the tuning run.  The window is one poll wide with asynchronous scheduling
(results of the source later in the same batch) and arbitrarily wide with asynchronous_scheduling=False.

Stand-alone: /venv/bin/python findings/F08_repro.py   (exit 1 = defect present)"""
import sys, os
sys.path.insert(0, os.path.dirname(os.path.dirname(os.path.abspath(__file__))))
from harness.drivers import realsched as R

bad = []
for seed, nw, async_sched in [(109087, 4, False), (3, 2, True), (5, 3, True), (11, 4, True), (17, 2, True), (23, 3, True)]:
    tr, out = R.run("pbt", seed, nw, started_budget=9, delete_checkpoints=True, async_sched=async_sched)
    deleted, queued = set(), []
    for e in tr["ev"]:
        if e["a"] == "Delete":
            deleted.add(e["t"])
        elif e["a"] == "Queue":
            queued.append((e["s"], e["s"] in deleted))
        elif e["a"] == "Start" and e["from"] >= 0 and e["from"] in deleted:
            bad.append((seed, nw, async_sched, e))
            print(f"seed={seed} n_workers={nw} asynchronous_scheduling={async_sched}: trial {e['t']} started from the "
                  f"checkpoint of trial {e['from']}, which was deleted before")
print("defect present" if bad else "not reproduced")
sys.exit(1 if bad else 0)
