"""F26 (C16, repaired): clone_from_state of a GP searcher dropped the state converter behind max_size_data_for_model.

Stand-alone: PYTHONPATH=<checkout> /venv/bin/python findings/F26_repro.py   (exit 1 = defect present)"""
import logging, os, sys
sys.path.insert(0, os.path.dirname(os.path.dirname(os.path.abspath(__file__))))
try:
    from harness import shim  # noqa: F401
except Exception:
    pass
from syne_tune.config_space import uniform
from syne_tune.optimizer.schedulers.searchers import GPFIFOSearcher
logging.getLogger().setLevel(logging.ERROR)
s = GPFIFOSearcher(config_space={"x": uniform(0.0, 1.0)}, metric="loss", mode="min", points_to_evaluate=[], scheduler="fifo",
                   random_seed=1, debug_log=False, max_size_data_for_model=4)
orig = type(s.state_transformer._state_converter).__name__
clone = s.clone_from_state(s.get_state())
conv = clone.state_transformer._state_converter
print("original:", orig, " clone:", None if conv is None else type(conv).__name__)
sys.exit(1 if conv is None else 0)
