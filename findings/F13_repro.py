"""F13 (C01): on_trial_remove AND on_trial_error for the same run.
Stand-alone: /venv/bin/python findings/F13_repro.py   (exit 1 = defect present)"""
import sys, os
sys.path.insert(0, os.path.dirname(os.path.dirname(os.path.abspath(__file__))))
from harness.drivers import tunerloop as D

s = D.Script()
s.wev = {1: [("W_Emit", 0), ("W_Fail", 0)]}    # trial 0 reports once, then crashes, before the 2nd poll
s.decisions = {0: ["STOP"]}
s.suggestions = [("new", -1)]
s.crit = [False, False, True]
run = D.run_tuner({"nw": 1, "kind": "stop", "maxfail": 3}, s)
calls = [e["a"] for e in run["ev"] if e["a"] in ("Add", "Result", "Remove", "Complete", "Error") and e.get("t") == 0]
print("scheduler callbacks for trial 0:", calls)
sys.exit(1 if calls.count("Remove") + calls.count("Error") + calls.count("Complete") > 1 else 0)
