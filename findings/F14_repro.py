"""F14 (C01 / C02), repaired by the fix commit "Tuner with start_jobs_without_delay=False lost newly started trials".

Tuner._schedule_new_tasks re-bound its LOCAL name running_trials_ids to the backend's busy set whenever a trial had
terminated since the last poll; trials started in that call were added to the local set only, were never polled, and
neither their results nor their completion ever reached the scheduler.

Stand-alone: /venv/bin/python findings/F14_repro.py   (exit 1 = defect present)"""
import sys, os
sys.path.insert(0, os.path.dirname(os.path.dirname(os.path.abspath(__file__))))
from harness.drivers import tunerloop as D

s = D.Script()
# observation points: 0 poll, 1 busy_trial_ids (start 0 and 1), 2 poll, 3 busy_trial_ids (trial 0 has just exited ->
# trial 2 is started), 4 poll, 5 busy, 6 poll (trial 2 reports twice), 7 busy (trial 2 exits), then idle polls
s.wev = {2: [("W_Emit", 0), ("W_Emit", 1)], 3: [("W_Exit", 0)], 6: [("W_Emit", 2), ("W_Emit", 2)], 7: [("W_Exit", 2)]}
s.suggestions = [("new", -1)] * 8
s.crit = [False] * 8 + [True]
run = D.run_tuner({"nw": 2, "kind": "stop", "maxfail": 3, "sjwd": False}, s)
polled = set()
for e in run["ev"]:
    if e["a"] == "Fetch":
        polled |= set(e["ids"])
started = {e["t"] for e in run["ev"] if e["a"] == "Start"}
results2 = [e for e in run["ev"] if e["a"] == "Result" and e["t"] == 2]
print("started:", sorted(started), " ever polled:", sorted(polled), " results of trial 2 delivered:", len(results2))
sys.exit(1 if (2 in started and 2 not in polled) else 0)
