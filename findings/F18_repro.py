"""F18 (C16), repaired by the fix commit "clone_from_state of model-based searchers refitted on unchanged data".

ModelStateTransformer remembers for how many observations the model parameters were fitted most recently
(_num_evaluations) and does not refit while that number is unchanged.  get_state / clone_from_state did not carry this
number: the re-created searcher refitted at its next get_config although the data had not changed, found slightly
different parameters from the warm start, and suggested a different configuration than the searcher that was never
interrupted.

Stand-alone: /venv/bin/python findings/F18_repro.py   (exit 1 = defect present)"""
import sys, os
sys.path.insert(0, os.path.dirname(os.path.dirname(os.path.abspath(__file__))))
from harness.drivers import searcher as D

hist = [{'a': 'Suggest'}, {'a': 'Suggest'}, {'a': 'Suggest'}, {'a': 'Fail', 't': 2}, {'a': 'Suggest'},
        {'a': 'Result', 't': 3}, {'a': 'Result', 't': 3}, {'a': 'Result', 't': 3}, {'a': 'Suggest'}, {'a': 'Restore'},
        {'a': 'Fail', 't': 4}, {'a': 'Suggest'}]
a = D.Episode("hb_bayesopt", "s4", [], 313, own_global_rng=True)
b = D.Episode("hb_bayesopt", "s4", [], 313, own_global_rng=True)
diverged = False
for step in hist:
    if step["a"] == "Restore":
        b.restore_state()          # searcher.get_state() -> pickle -> clone_from_state()
        continue
    na, nb = len(a.outputs), len(b.outputs)
    a.step(step)
    b.step(step)
    if a.outputs[na:] != b.outputs[nb:]:
        diverged = True
        print("uninterrupted:", a.outputs[na:])
        print("restored     :", b.outputs[nb:])
print("defect present" if diverged else "restored searcher continues identically")
sys.exit(1 if diverged else 0)
