"""F22 (C06): the random searcher answers "nothing left" although a configuration of a finite space is left.

sample_random_configuration draws at most MAX_RETRIES = 100 configurations and gives up when all of them are excluded.
When few configurations remain and they are unlikely under the sampling distribution (log-scaled integers), this
happens with a probability of about one per cent per call; a later call may then suggest the remaining configuration.

Stand-alone: /venv/bin/python findings/F22_repro.py   (exit 1 = defect present; the search over seeds is deterministic)"""
import sys, os
sys.path.insert(0, os.path.dirname(os.path.dirname(os.path.abspath(__file__))))
from harness import shim  # noqa: F401
from syne_tune.config_space import lograndint, choice
from syne_tune.optimizer.schedulers.searchers import RandomSearcher

space = {"a": lograndint(1, 4), "b": choice(["red", "green"])}      # 8 configurations
found = None
for seed in range(400):
    s = RandomSearcher(space, metric="m", points_to_evaluate=[], random_seed=seed)
    seen = []
    for k in range(8):
        c = s.get_config(trial_id=str(k))
        if c is None:
            found = (seed, len(seen))
            break
        seen.append(c)
        s.register_pending(str(k), c) if hasattr(s, "register_pending") else None
    if found:
        break
print("seed %d: 'nothing left' after %d of 8 configurations" % found if found else "not reproduced in 400 seeds")
sys.exit(1 if found else 0)
