"""F19 (C14): with searcher_data="rungs" the data set of the surrogate model gets an observation at a level the policy does
not select, when a trial ends on its own between rung levels.

HyperbandScheduler.on_trial_complete passes the final result on to the searcher whenever its level lies beyond the last
level the searcher was updated with -- whatever the searcher_data policy says.

Stand-alone: /venv/bin/python findings/F19_repro.py   (exit 1 = defect present)"""
import sys, os
sys.path.insert(0, os.path.dirname(os.path.dirname(os.path.abspath(__file__))))
from harness.drivers import asynchb as D

conf = {"levels": [2, 3], "maxt": 6, "nbr": 1, "perbr": False, "type": "stopping", "min": True, "mra": False, "ckpt": True,
        "nthr": 0, "sd": "rungs", "myopic": False, "cap0": 6}
ep = D.Episode(conf, seed=0)
ep.suggest()
for r in range(1, 5):
    ep.report(0, 1, 0)        # levels 1 .. 4 (rung levels are 2 and 3)
    if ep.state.get(0) != "running":
        break
ep.complete(0)                # the script ends on its own after level 4
ss = [e for e in ep.ev if e["a"] == "SS"][-1]
levels = sorted(o[1] for o in ss["obs"] if o[0] == 0)
print("trial 0 reported levels 1..%d, completed; observations in the data set at levels %s (rung levels: [2, 3])" % (ep.lastr[0], levels))
bad = [l for l in levels if l not in (2, 3, 6)]
print("defect present" if bad else "only levels selected by the policy")
sys.exit(1 if bad else 0)
