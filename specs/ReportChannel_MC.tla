--------------------------- MODULE ReportChannel_MC ---------------------------
EXTENDS ReportChannel
CONSTANTS MaxChunks, MaxPay, MaxNoise
Strings(A, n) == UNION {[1..k -> A] : k \in 0..n}
VARIABLE nchunks
MCInit == Init /\ nchunks = 0
MCNext ==
  /\ nchunks < MaxChunks /\ nchunks' = nchunks + 1
  /\ \/ \E p \in Strings(PayTok, MaxPay) : Report(p)
     \/ \E s \in Strings(NoiseTok, MaxNoise) : s # <<>> /\ Noise(s)
     \/ Rejected
Spec == MCInit /\ [][MCNext]_<<vars, nchunks>>
=============================================================================
