------------------------------- MODULE Pareto -------------------------------
(***************************************************************************)
(* Pareto filter, non-dominated sort, and MOASHA's rank rule (C19).        *)
(*   syne_tune/optimizer/schedulers/multiobjective/non_dominated_priority, *)
(*   multiobjective_priority.py, moasha.py                                 *)
(* Points are sequences of integers, lower is better in every coordinate.  *)
(***************************************************************************)
EXTENDS Integers, Sequences, FiniteSets, TLC

Dominates(a, b) == (\A i \in 1..Len(a) : a[i] <= b[i]) /\ (\E i \in 1..Len(a) : a[i] < b[i])
\* X: sequence of points; the indices no other point dominates
ParetoIdx(X, S) == {i \in S : ~\E j \in S : Dominates(X[j], X[i])}
ParetoMask(X) == [i \in 1..Len(X) |-> i \in ParetoIdx(X, 1..Len(X))]
\* layer number of every index (1 = Pareto front of all, 2 = front of the rest, ...)
RECURSIVE LayerOf(_, _, _)
LayerOf(X, S, k) == IF S = {} THEN [i \in {} |-> 0]
                    ELSE LET F == ParetoIdx(X, S) IN [i \in F |-> k] @@ LayerOf(X, S \ F, k + 1)
Layers(X) == LayerOf(X, 1..Len(X), 1)
\* order: sequence of indices (1-based) returned by the sort; maxItems = 0 means "all"
ValidSort(X, order, maxItems) ==
  LET L == Layers(X)
      n == Len(X)
      want == IF maxItems = 0 \/ maxItems > n THEN n ELSE maxItems
  IN  /\ Len(order) = want
      /\ \A k \in 1..Len(order) : order[k] \in 1..n
      /\ \A k1, k2 \in 1..Len(order) : k1 # k2 => order[k1] # order[k2]                 \* every index once
      /\ \A k1, k2 \in 1..Len(order) : k1 < k2 => L[order[k1]] <= L[order[k2]]           \* earlier layers first
      \* a truncated order takes whole layers before it enters the next one
      /\ \A i \in 1..n : (\E k \in 1..Len(order) : L[order[k]] > L[i]) => (\E k \in 1..Len(order) : order[k] = i)

\* MOASHA: X = vectors recorded at the rung, the new one LAST.  Rank of the new element in some valid sort,
\* divided by n, compared with 1 / rf (rf = <<num, den>>):  allowed decisions
MoashaAllowed(X, rfn, rfd) ==
  LET n   == Len(X)
      L   == Layers(X)
      lo  == Cardinality({i \in 1..n : L[i] < L[n]})                 \* best possible position (0-based)
      hi  == lo + Cardinality({i \in 1..n : L[i] = L[n]}) - 1        \* worst possible position
      \* position / n > 1 / rf  <=>  position * rfn > n * rfd   (rf = rfn / rfd)
  IN  (IF lo * rfn > n * rfd THEN {} ELSE {"CONTINUE"}) \cup (IF hi * rfn > n * rfd THEN {"STOP"} ELSE {})

\* MOASHA with a scalar priority (FixedObjectivePriority, LinearScalarizationPriority): P = priorities recorded at the
\* rung, the new one LAST.  Equal priorities share a rank: the rank of the new entry is the number of strictly better ones.
MoashaScalarAllowed(P, rfn, rfd) ==
  LET n   == Len(P)
      pos == Cardinality({i \in 1..n : P[i] < P[n]})
  IN  IF pos * rfn > n * rfd THEN {"STOP"} ELSE {"CONTINUE"}
=============================================================================
