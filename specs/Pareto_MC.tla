----------------------------- MODULE Pareto_MC -----------------------------
(* Enumerates all point sets of the given size / dimension / value range and  *)
(* prints (X, mask, layers) rows; checks the definitional facts by ASSUME.    *)
EXTENDS Pareto, Json
CONSTANTS N, D, Vals
Points == [1..D -> Vals]
Sets == [1..N -> Points]
\* definitional sanity: the Pareto set is non-empty and mutually non-dominated; layers partition the indices
ASSUME \A X \in Sets : /\ ParetoIdx(X, 1..N) # {}
                       /\ \A i, j \in ParetoIdx(X, 1..N) : ~Dominates(X[i], X[j])
                       /\ DOMAIN Layers(X) = 1..N
                       /\ \A i \in 1..N : (Layers(X)[i] = 1) = ParetoMask(X)[i]
VARIABLE x
Init == x = 0 /\ \A X \in Sets : PrintT(<<"@@GEN@@", ToJson([X |-> X, mask |-> ParetoMask(X), layers |-> [i \in 1..N |-> Layers(X)[i]]])>>)
Next == UNCHANGED x
Spec == Init /\ [][Next]_x
=============================================================================
