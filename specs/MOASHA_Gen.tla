----------------------------- MODULE MOASHA_Gen -----------------------------
(* Report schedules for MOASHA: which trial reports next and which objective  *)
(* vector; the driver adds trials on demand and skips reports of stopped ones *)
EXTENDS Integers, Sequences, FiniteSets, TLC, Json
CONSTANTS NTrials, Vals, Dim, GenLen
VARIABLES hist
Init == hist = <<>>
Next == \E t \in 0..(NTrials - 1), v \in [1..Dim -> Vals] : hist' = Append(hist, [a |-> "Report", t |-> t, v |-> v])
Spec == Init /\ [][Next]_hist
Emit == (Len(hist') = GenLen) => PrintT(<<"@@GEN@@", ToJson(hist')>>)
Bound == Len(hist) <= GenLen
=============================================================================
