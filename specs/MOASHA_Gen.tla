----------------------------- MODULE MOASHA_Gen -----------------------------
(* Report schedules for MOASHA: which trial reports next, which objective    *)
(* vector, how many iterations it advanced since its last report (sparse     *)
(* reporters), and which trial completes (its last result is then passed to  *)
(* on_trial_complete).  The driver adds trials on demand and skips events of *)
(* trials that are stopped or completed.                                     *)
EXTENDS Integers, Sequences, FiniteSets, TLC, Json
CONSTANTS NTrials, Vals, Dim, GenLen, MaxSkip
VARIABLES hist
Init == hist = <<>>
Next == \/ \E t \in 0..(NTrials - 1), v \in [1..Dim -> Vals], s \in 1..MaxSkip :
             hist' = Append(hist, [a |-> "Report", t |-> t, v |-> v, skip |-> s])
        \/ \E t \in 0..(NTrials - 1) : hist' = Append(hist, [a |-> "Complete", t |-> t])
Spec == Init /\ [][Next]_hist
Emit == (Len(hist') = GenLen) => PrintT(<<"@@GEN@@", ToJson(hist')>>)
Bound == Len(hist) <= GenLen
=============================================================================
