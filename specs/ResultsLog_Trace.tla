--------------------------- MODULE ResultsLog_Trace ---------------------------
EXTENDS ResultsLog, Json, IOUtils, TLCExt
Traces == ndJsonDeserialize(IOEnv.TRACE_FILE)
VARIABLES tid, l
tvars == <<vars, tid, l>>
TInit == \E i \in 1..Len(Traces) : tid = i /\ l = 1 /\ InitCommon(Traces[i].conf)
TStep(e) ==
  CASE e.a = "Handed"  -> EvHanded(e.t, e.v)
    [] e.a = "Deliver" -> EvDeliver(e.t, e.v, e.d, e.c)
    [] e.a = "Final"   -> EvFinal(e.rows, e.rowsback, e.cfgok, e.bestT, e.bestL, e.pstats, e.ostats)
    [] e.a = "BestMore" -> EvBestMore(e.rows, e.t2, e.l2, e.p)
    [] e.a = "Crash"   -> EvCrash
TNext == /\ l <= Len(Traces[tid].ev) /\ TStep(Traces[tid].ev[l]) /\ l' = l + 1 /\ tid' = tid
TSpec == TInit /\ [][TNext]_tvars
Report ==
  /\ PrintT(<<"@@P@@", tid, l>>)
  /\ (l = Len(Traces[tid].ev) + 1) => PrintT(<<"@@FLG@@", tid, flags>>)
=============================================================================
