----------------------------- MODULE AsyncHB_MC -----------------------------
EXTENDS AsyncHB
CONSTANTS LevelsC, MaxT, NBr, PerBr, Type, IsMin, MRA, Ckpt, NThr, Vals, Costs, Faults, MaxRun, SD, Myopic, Completes

\* (cfg files cannot hold sequences: the rung levels are given as a set)
Levels == SetToSortSeq(LevelsC, LAMBDA a, b : a < b)
\* PASHARungSystem.__init__: current_rung_idx = min(len - 1, 2); current_max_t = rung_levels[current_rung_idx - 1]
PashaCap0 == Levels[IF Len(Levels) = 1 THEN 1 ELSE IF Len(Levels) - 1 < 2 THEN Len(Levels) - 1 ELSE 2]
Conf == [levels |-> Levels, maxt |-> MaxT, nbr |-> NBr, perbr |-> PerBr, type |-> Type, min |-> IsMin, mra |-> MRA,
         ckpt |-> Ckpt, nthr |-> NThr, vals |-> Vals, costs |-> Costs, faults |-> Faults,
         cap0 |-> IF Type = "pasha" THEN PashaCap0 ELSE MaxT, sd |-> SD, myopic |-> Myopic, completes |-> Completes]
Init == InitCommon(Conf)
Spec == Init /\ [][Next]_vars
\* at most MaxRun trials run concurrently (n_workers)
Workers == Cardinality({t \in Trials : st[t] = "running"}) <= MaxRun
\* witnesses
W_NoPromotion == \A t \in Trials : rf[t] = 0
W_NoStop == \A t \in Trials : st[t] # "stopped"
W_NoSecondRung == \A k \in DOMAIN rung : k[2] = Levels[1] \/ rung[k] = {}
=============================================================================
