---------------------------- MODULE SimBackend_Gen ----------------------------
EXTENDS SimBackend_MC, Json
VARIABLE hist
CONSTANT GenLen
H(r) == hist' = Append(hist, r)
GInit == Init /\ hist = <<>>
GNext ==
  /\ ncalls' = ncalls + 1 /\ UNCHANGED cf
  /\ \/ \E t \in Trials, c \in 1..Len(cf.tab) : \E s \in 1..NumSeeds(c), lim \in 1..NumLevels(c) :
          (cf.seed > 0 => s = cf.seed) /\ (~cf.mra => lim = NumLevels(c)) /\ A_Start(t, c, s, lim)
          /\ H([a |-> "Start", t |-> t, c |-> c, lim |-> lim])
     \/ \E t \in Trials : \E lim \in 1..NumLevels(prun[t].c + (IF prun[t].c = 0 THEN 1 ELSE 0)) :
          (~cf.mra => lim = 1) /\ A_Resume(t, lim) /\ H([a |-> "Resume", t |-> t, lim |-> lim])
     \/ (A_Fetch({t \in Trials : mode[t] = "running"}) /\ H([a |-> "Fetch"]))
     \/ \E t \in Trials : A_Pause(t, nextLv[t] - 1) /\ H([a |-> "Pause", t |-> t])
     \/ \E t \in Trials : A_Stop(t) /\ H([a |-> "Stop", t |-> t])
     \/ (A_Sleep /\ H([a |-> "Sleep"]))
     \/ \E d \in cf.outs : owed = 0 /\ A_Outside(d) /\ H([a |-> "Outside", d |-> d])
Emit == (Len(hist') = GenLen) => PrintT(<<"@@GEN@@", ToJson(hist')>>)
GBound == Len(hist) <= GenLen
=============================================================================
