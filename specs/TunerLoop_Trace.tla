--------------------------- MODULE TunerLoop_Trace ---------------------------
(* Batch validation of traces recorded around the real Tuner.run.           *)
(* One line of TRACE_FILE = one run: [id, conf, ev].  Every event is an     *)
(* ENVIRONMENT action or a MONITOR event operator of TunerLoop with all its *)
(* arguments taken from the log; the program layer is not used.  A trace is *)
(* consumed completely unless an environment guard fails (harness bug);     *)
(* what the implementation did is judged by the flags raised on the way,    *)
(* i.e. by the invariants of TunerLoop.                                     *)
EXTENDS TunerLoop, Json, IOUtils, TLCExt

Traces == ndJsonDeserialize(IOEnv.TRACE_FILE)
VARIABLES tid, l
tvars == <<vars, tid, l>>

SetOf(s) == {s[i] : i \in 1..Len(s)}

TInit == \E i \in 1..Len(Traces) : tid = i /\ l = 1 /\ InitCommon(Traces[i].conf)

TStep(e) ==
  CASE e.a = "W_Emit"     -> W_Emit(e.t)
    [] e.a = "W_Exit"     -> W_Exit(e.t)
    [] e.a = "W_Fail"     -> W_Fail(e.t)
    [] e.a = "W_ExtStop"  -> W_ExtStop(e.t)
    [] e.a = "W_Gone"     -> W_Gone(e.t)
    [] e.a = "Fetch"      -> EvFetch(e.n, SetOf(e.dead), e.vals)
    [] e.a = "Result"     -> EvResult(e.t, e.r, e.i, e.d)
    [] e.a = "StopTrial"  -> EvStopTrial(e.t)
    [] e.a = "PauseTrial" -> EvPauseTrial(e.t)
    [] e.a = "Remove"     -> EvRemove(e.t)
    [] e.a = "Complete"   -> EvComplete(e.t)
    [] e.a = "Error"      -> EvError(e.t)
    [] e.a = "CbComplete" -> EvCbComplete(e.t)
    [] e.a = "Start"      -> EvStart(e.t, e.from)
    [] e.a = "Add"        -> EvAdd(e.t)
    [] e.a = "Resume"     -> EvResume(e.t)
    [] e.a = "Queue"      -> EvQueue(e.s)
    [] e.a = "Loaded"     -> EvLoaded(e.t, e.b)
    [] e.a = "Busy"       -> EvBusy(SetOf(e.S))
    [] e.a = "Delete"     -> EvDelete(e.t)
    [] e.a = "Removable"  -> EvRemovable(SetOf(e.S))
    [] e.a = "Exhausted"  -> EvExhausted
    [] e.a = "StopCrit"   -> EvStopCrit(e.b)
    [] e.a = "Iter"       -> EvIter
    [] e.a = "StopAll"    -> EvStopAll(SetOf(e.S))
    [] e.a = "End"        -> EvEnd(e.kind, e.named, e.cnt)

TNext ==
  /\ l <= Len(Traces[tid].ev)
  /\ TStep(Traces[tid].ev[l])
  /\ l' = l + 1 /\ tid' = tid
  /\ UNCHANGED <<cf, progV>>

TSpec == TInit /\ [][TNext]_tvars

\* progress + verdict reporting: flags only grow, so the flags of the last state are the verdict
Report ==
  /\ PrintT(<<"@@P@@", tid, l>>)
  /\ (l = Len(Traces[tid].ev) + 1) => PrintT(<<"@@FLG@@", tid, flags>>)
=============================================================================
