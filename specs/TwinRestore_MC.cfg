SPECIFICATION Spec
CONSTANTS
  Space = {1, 2, 3, 4}
  Init2E <- P2E
INVARIANT SameContinuation
