----------------------------- MODULE Domains_MC -----------------------------
(* Enumerates the domain instances and cube points of the C07 campaign and    *)
(* checks the definitional facts of the specification itself.                 *)
EXTENDS Domains, Json
CONSTANTS MaxU, MaxN, GridN, DegMax
Dom(k, l, u, n, q) == [kind |-> k, l |-> l, u |-> u, n |-> n, q |-> q]
IntDoms  == {Dom(k, l, u, 0, 1) : k \in {"randint"}, l \in 0..MaxU, u \in 0..MaxU}
LogDoms  == {Dom("lograndint", l, u, 0, 1) : l \in 1..MaxU, u \in 1..MaxU}
            \cup {Dom("lograndint", k, k, 0, 1) : k \in 1..DegMax}          \* degenerate lower == upper: exp(log k) rounding
            \cup {Dom("lograndint", k, k + 1, 0, 1) : k \in 1..DegMax}
QDoms    == {Dom("qrandint", 2 * a, 2 * b, 0, 2) : a \in 0..2, b \in 0..3}
CatDoms  == {Dom(k, 0, 0, n, 1) : k \in {"choice", "ordinal", "ordinal_nn", "ordinal_nnlog"}, n \in 1..MaxN}
\* (bounds 0..2 / 1..MaxU+2: with cast_int, grid values k + 1/2 arise, e.g. finrange(1, 4, 3) = 1, 2.5, 4)
FinDoms  == {Dom(k, l, u, n, 1) : k \in {"finrange", "finrange_int", "logfinrange", "logfinrange_int"}, l \in 0..2, u \in 1..(MaxU + 2), n \in 1..MaxN}
ContDoms == {Dom(k, l, u, 0, 1) : k \in {"uniform", "loguniform", "reverseloguniform", "quniform"}, l \in 1..2, u \in 1..MaxU}
Legal(d) == d.l <= d.u /\ (d.kind \in {"finrange", "finrange_int", "logfinrange", "logfinrange_int"} => (d.n = 1) = (d.l = d.u))
                       /\ (d.kind \in {"logfinrange", "logfinrange_int"} => d.l >= 1)
                       /\ (d.kind \in {"uniform", "loguniform", "quniform"} => d.l < d.u \/ d.kind = "uniform")
                       /\ (d.kind = "reverseloguniform" => d.l < d.u /\ d.u <= 2 /\ d.l = 1)
All == {d \in IntDoms \cup LogDoms \cup QDoms \cup CatDoms \cup FinDoms \cup ContDoms : Legal(d)}
ASSUME \A d \in All : d.kind \in Discrete => Size(d) >= 1
VARIABLE x
Init == x = 0 /\ \A d \in All : PrintT(<<"@@GEN@@", ToJson([d |-> d, grid |-> GridN])>>)
Next == UNCHANGED x
Spec == Init /\ [][Next]_x
=============================================================================
