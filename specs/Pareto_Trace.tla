---------------------------- MODULE Pareto_Trace ----------------------------
(* Validates what the real pareto_efficient / nondominated_sort / MOASHA      *)
(* returned: one line of TRACE_FILE = one call.                               *)
EXTENDS Pareto, Json, IOUtils, TLCExt
Calls == ndJsonDeserialize(IOEnv.TRACE_FILE)
VARIABLE i
Verdict(c) ==
  CASE c.f = "pareto_efficient" -> IF c.mask = ParetoMask(c.X) THEN {} ELSE {"pareto_mask"}
    [] c.f = "nondominated_sort" -> IF ValidSort(c.X, c.order, c.maxitems) THEN {} ELSE {"invalid_sort"}
    [] c.f = "moasha" -> IF c.d \in MoashaAllowed(c.X, c.rfn, c.rfd) THEN {} ELSE {"moasha_rank_rule"}
    [] c.f = "moasha_scalar" -> IF c.d \in MoashaScalarAllowed(c.P, c.rfn, c.rfd) THEN {} ELSE {"moasha_rank_rule"}
    [] c.f = "moasha_first" -> IF c.d = "CONTINUE" THEN {} ELSE {"moasha_first_continues"}
    [] c.f = "moasha_max" -> IF c.d = "STOP" THEN {} ELSE {"moasha_stop_at_max"}
    [] c.f = "moasha_off" -> IF c.d = "CONTINUE" THEN {} ELSE {"moasha_decide_off_rung"}
Init == i = 1 /\ \A k \in 1..Len(Calls) : PrintT(<<"@@FLG@@", k, Verdict(Calls[k])>>)
Next == UNCHANGED i
Spec == Init /\ [][Next]_i
=============================================================================
