SPECIFICATION Spec
CONSTANTS
  MaxLen = 5
  Vals = {0, 1, 2, 3}
  Dens = 6
