------------------------------- MODULE AsyncHB -------------------------------
(***************************************************************************)
(* Asynchronous Hyperband: HyperbandScheduler + HyperbandBracketManager +  *)
(* the rung systems (stopping, promotion/ASHA, PASHA cap, cost-aware       *)
(* promotion, RUSH stopping).                                              *)
(*   syne_tune/optimizer/schedulers/hyperband.py, hyperband_stopping.py,   *)
(*   hyperband_promotion.py, hyperband_pasha.py, hyperband_cost_promotion, *)
(*   hyperband_rush.py                                                     *)
(*                                                                         *)
(* Layers as in TunerLoop:                                                 *)
(*  MONITOR  Ev*(...) : one operator per scheduler call with the           *)
(*           scheduler's OUTPUT as argument (decision, resumed trial,      *)
(*           bracket, milestone).  Rung contents are defined by the        *)
(*           property's own vocabulary ("all metrics recorded at that rung *)
(*           so far"), the outputs are judged against the documented rule  *)
(*           (numpy quantile, Quantile!Cutoff) and raise flags.  Metric    *)
(*           equal to the cutoff = "tie": either outcome is accepted.      *)
(*  PROGRAM  A_*: transcription of what the code computes (Code* operators,*)
(*           with Quantile!CodeQuantile and the code's <= / < tests); used *)
(*           for exhaustive checking and behaviour generation.             *)
(***************************************************************************)
EXTENDS Integers, Sequences, FiniteSets, TLC, Quantile, SequencesExt

CONSTANT NT
Trials == 0 .. (NT - 1)
NoVal == -999

VARIABLES
  cf,      \* [levels, maxt, nbr, perbr, type, min, mra, ckpt, nthr, vals, costs]
  st,      \* [Trials -> "none" | "running" | "paused" | "stopped" | "failed"]
  lastr,   \* [Trials -> Nat]   last level reported in the current run
  rung,    \* [<<sys, level>> -> set of [t, v, c, p]]  metrics recorded at a rung, p = promoted from it
  br,      \* [Trials -> bracket]
  ms,      \* [Trials -> next milestone]      (promotion types)
  rf,      \* [Trials -> resume_from, 0 if the run started from scratch]
  cap,     \* current resource cap (PASHA), maxt otherwise
  thr,     \* RUSH: [level -> best candidate metric or NoVal]
  nstart,  \* trials started
  flags,
  \* ---- searcher-data layer (C14)
  reps,    \* monitor: set of <<t, r, v>>  every (non-repeated) report
  reached, \* monitor: set of <<t, r>>     reports at which the trial reached a milestone
  latest,  \* monitor: [Trials -> last level reported in a way that counts (not a re-report after a restart)]
  cmpl,    \* monitor: set of <<t, r>>: trial t ended on its own after its report at level r
  tie,     \* monitor: some decision so far was taken at an exact tie (metric = cutoff): either outcome was legal
  pobs,    \* searcher state: set of <<t, r>> with an observation   (program / bound from the log)
  ppend,   \* searcher state: set of <<t, r>> pending               (program / bound from the log)
  lur,     \* program: largest_update_resource per trial (0 = none)
  fresh    \* the searcher state variables are up to date with the other variables

sdV  == <<reps, reached, latest, cmpl, tie>>
ssV  == <<pobs, ppend, lur, fresh>>
vars == <<cf, st, lastr, rung, br, ms, rf, cap, thr, nstart, flags, sdV, ssV>>

----------------------------------------------------------------------------
Flag(c, f)   == IF c THEN {f} ELSE {}
NoFlag(f)    == f \notin flags
SetOfSeq(s)  == {s[i] : i \in 1..Len(s)}
LevelSet     == SetOfSeq(cf.levels)
NumSys       == IF cf.perbr THEN cf.nbr ELSE 1
SysOf(b)     == IF cf.perbr THEN b ELSE 0
IsPromotion  == cf.type \in {"promotion", "pasha", "cost_promotion", "rush_promotion"}
IdxOf(lv)    == CHOOSE i \in 1..Len(cf.levels) : cf.levels[i] = lv
NextLevel(lv) == IF IdxOf(lv) < Len(cf.levels) THEN cf.levels[IdxOf(lv) + 1] ELSE cf.maxt
PromQ(lv)    == <<lv, NextLevel(lv)>>                      \* q_j = r_j / r_{j+1}
OwnLevels(b) == {cf.levels[i] : i \in (b + 1)..Len(cf.levels)}  \* bracket offset: the b lowest rungs are skipped
SysLevels(s) == IF cf.perbr THEN OwnLevels(s) ELSE LevelSet
FirstMilestone(b) == IF b < Len(cf.levels) THEN cf.levels[b + 1] ELSE cf.maxt
Better(a, b) == IF cf.min THEN a < b ELSE a > b
NoWorse(a, b) == IF cf.min THEN a <= b ELSE a >= b
InRung(t, s, lv) == \E e \in rung[<<s, lv>>] : e.t = t
\* values of a rung, best first (the order the code keeps them in)
EntryLeq(a, b) == IF a.v = b.v THEN a.t <= b.t ELSE Better(a.v, b.v)
BestFirst(S)  == SetToSortSeq(S, EntryLeq)
ValsOf(S)     == [i \in 1..Cardinality(S) |-> BestFirst(S)[i].v]

Keys == {<<s, lv>> : s \in 0..(NumSys - 1), lv \in LevelSet}

----------------------------------------------------------------------------
(* The documented rule *)

\* may v continue / be promoted at a rung holding entries S (v included)?  "yes" | "no" | "tie"
RungVerdict(S, lv, v) == ContinueVerdict(ValsOf(S), PromQ(lv), cf.min, v)

\* cost-aware promotion: entries ranked best first, C(k) = cumulated cost, K = max k with C(k) <= q * C(N)
SumCostSet(S) == LET seq == BestFirst(S) F[i \in 0..Len(seq)] == IF i = 0 THEN 0 ELSE F[i-1] + seq[i].c IN F[Len(seq)]
SumCostTo(seq, k) == LET F[i \in 0..k] == IF i = 0 THEN 0 ELSE F[i-1] + seq[i].c IN F[k]
\* verdict for position k of the best-first sequence: C(k) vs q * C(N)   (lv/NextLevel(lv) * C(N))
CostVerdict(seq, lv, k) ==
  LET lhs == SumCostTo(seq, k) * NextLevel(lv)
      rhs == SumCostTo(seq, Len(seq)) * lv
  IN  IF lhs < rhs THEN "yes" ELSE IF lhs = rhs THEN "tie" ELSE "no"

\* RUSH: a non-candidate must be no worse than the best candidate metric seen at that level
MeetsThr(t, v, lv) == t < cf.nthr \/ thr[lv] = NoVal \/ NoWorse(v, thr[lv])

\* Entries of rung (s, lv) that the rule allows to promote: the best not-yet-promoted entries whose
\* metric is no worse than the cutoff.  "def" = certainly eligible, "pos" = eligible or tie.
Unpromoted(s, lv) == {e \in rung[<<s, lv>>] : ~e.p}
BestUnp(s, lv)    == {e \in Unpromoted(s, lv) : \A f \in Unpromoted(s, lv) : ~Better(f.v, e.v)}
EligVerdict(s, lv, e) ==
  IF Cardinality(rung[<<s, lv>>]) < 2 THEN "no"
  ELSE IF cf.type = "cost_promotion"
    THEN \* cost-aware rule; entries of equal metric have no documented order: best / worst case placement
         LET S      == rung[<<s, lv>>]
             better == {f \in S : Better(f.v, e.v)}
             nowrs  == {f \in S : ~Better(e.v, f.v)}            \* better or equal (e included)
             tot    == SumCostSet(S)
             bestC  == SumCostSet(better) + e.c
             worstC == SumCostSet(nowrs)
         IN  IF \E f \in better : ~f.p THEN "no"
             ELSE IF bestC * NextLevel(lv) > tot * lv THEN "no"
             ELSE IF worstC * NextLevel(lv) < tot * lv THEN "yes" ELSE "tie"
    ELSE IF e \notin BestUnp(s, lv) THEN "no"
         ELSE LET w == RungVerdict(rung[<<s, lv>>], lv, e.v) IN IF w = "yes" THEN "yes" ELSE w
Eligible(s, lv, kind) ==     \* kind = "def" | "pos"
  {e \in Unpromoted(s, lv) : EligVerdict(s, lv, e) \in (IF kind = "def" THEN {"yes"} ELSE {"yes", "tie"})}
ScanLevels(s) == {lv \in SysLevels(s) : lv < cap}      \* rungs considered by a suggest call

----------------------------------------------------------------------------
(* ENVIRONMENT physics (harness side): levels are reported consecutively *)
NextReportLevel(t) == lastr[t] + 1
RunLimit(t) == IF IsPromotion /\ cf.mra THEN ms[t] ELSE cf.maxt

----------------------------------------------------------------------------
(* MONITOR *)

\* suggest() started a new trial t in bracket b; mval = config[max_resource_attr] (0 if not used)
EvStart(t, b, mval) ==
  /\ t \in Trials /\ st[t] = "none" /\ b \in 0..(cf.nbr - 1)
  /\ flags' = flags
       \cup Flag(IsPromotion /\ \E lv \in ScanLevels(SysOf(b)) : Eligible(SysOf(b), lv, "def") # {}, "start_while_eligible")  \* C04
       \cup Flag(IsPromotion /\ cf.mra /\ mval # FirstMilestone(b), "wrong_first_milestone")                               \* C04
       \cup Flag(t # nstart, "trial_id_sequence")
  /\ st' = [st EXCEPT ![t] = "running"] /\ lastr' = [lastr EXCEPT ![t] = 0]
  /\ br' = [br EXCEPT ![t] = b] /\ ms' = [ms EXCEPT ![t] = FirstMilestone(b)] /\ rf' = [rf EXCEPT ![t] = 0]
  /\ nstart' = nstart + 1
  /\ tie' = (tie \/ (IsPromotion /\ \E lv \in ScanLevels(SysOf(b)) : \E e \in Unpromoted(SysOf(b), lv) : EligVerdict(SysOf(b), lv, e) = "tie"))
  /\ UNCHANGED <<cf, rung, cap, thr, reps, reached, latest, cmpl>>

\* suggest() resumed trial t from rung level `from`, to run until `to`; b = bracket sampled
EvPromote(t, from, to, b, mval) ==
  LET s == SysOf(b) IN
  /\ t \in Trials /\ b \in 0..(cf.nbr - 1)
  /\ flags' = flags
       \cup Flag(st[t] # "paused", "promote_not_paused")                                                  \* C04 / C13
       \cup Flag(from \notin SysLevels(s) \/ ~(\E e \in rung[<<s, from>>] : e.t = t), "promote_not_in_rung")
       \cup Flag(from \in SysLevels(s) /\ (\E e \in rung[<<s, from>>] : e.t = t /\ e.p), "promoted_twice")  \* C04
       \cup Flag(from \in SysLevels(s) /\ (\E e \in Unpromoted(s, from) : e.t = t /\ EligVerdict(s, from, e) = "no"),
                 "promote_ineligible")                                                                     \* C04
       \cup Flag(\E lv \in ScanLevels(s) : lv > from /\ Eligible(s, lv, "def") # {}, "not_highest_rung")   \* C04
       \cup Flag(from \in LevelSet /\ to # NextLevel(from), "wrong_next_milestone")                        \* C04
       \cup Flag(from >= cap \/ to > cap, "beyond_cap")                                                    \* C04 (PASHA)
       \cup Flag(to > cf.maxt, "beyond_max_resource")
       \cup Flag(cf.mra /\ mval # to, "wrong_max_resource_attr")
  /\ rung' = IF from \in SysLevels(s)
               THEN [rung EXCEPT ![<<s, from>>] = {IF e.t = t THEN [e EXCEPT !.p = TRUE] ELSE e : e \in @}]
               ELSE rung
  /\ st' = [st EXCEPT ![t] = "running"]
  /\ lastr' = [lastr EXCEPT ![t] = IF cf.ckpt THEN from ELSE 0]
  /\ br' = [br EXCEPT ![t] = b] /\ ms' = [ms EXCEPT ![t] = to] /\ rf' = [rf EXCEPT ![t] = from]
  /\ tie' = (tie \/ \E lv \in ScanLevels(s) : \E e \in Unpromoted(s, lv) : EligVerdict(s, lv, e) = "tie")
  /\ UNCHANGED <<cf, cap, thr, nstart, reps, reached, latest, cmpl>>

\* expected decision of a stopping-type report: set of allowed decisions
StopAllowed(t, r, v, S1) ==     \* S1 = rung contents including the new entry (or {} if no rung is entered)
  IF r >= cf.maxt THEN {"STOP"}
  ELSE IF S1 = {} THEN {"CONTINUE"}
  ELSE LET w == RungVerdict(S1, r, v) IN
       IF cf.type = "rush_stopping" /\ t >= cf.nthr /\ ~(thr[r] = NoVal \/ NoWorse(v, thr[r]))
         THEN {"STOP"}                                  \* fails the RUSH threshold whatever the quantile says
         ELSE CASE w = "yes" -> {"CONTINUE"} [] w = "no" -> {"STOP"} [] OTHER -> {"CONTINUE", "STOP"}

\* on_trial_result(t, level r, metric v, cost c) returned decision d; capNow = PASHA cap read after the call
EvReport(t, r, v, c, d, capNow) ==
  LET s == SysOf(br[t]) IN
  /\ st[t] = "running" /\ r = NextReportLevel(t) /\ r <= RunLimit(t)       \* harness physics
  /\ IF IsPromotion
       THEN LET atMs   == (r = ms[t])
                enter  == atMs /\ r < cf.maxt /\ r \in LevelSet /\ ~InRung(t, s, r)
            IN
            /\ rung' = IF enter THEN [rung EXCEPT ![<<s, r>>] = @ \cup {[t |-> t, v |-> v, c |-> c, p |-> FALSE]}] ELSE rung
            /\ flags' = flags
                 \cup Flag(atMs /\ r < cf.maxt /\ d # "PAUSE", "pause_at_milestone")      \* C04
                 \cup Flag(atMs /\ r >= cf.maxt /\ d # "STOP", "stop_at_max")             \* C04
                 \cup Flag(~atMs /\ d # "CONTINUE", "decide_off_milestone")               \* C04
                 \cup Flag(r > cf.maxt, "beyond_max_resource")
                 \cup Flag(capNow < cap, "cap_not_monotone") \cup Flag(capNow > cf.maxt, "cap_beyond_max")  \* C04
                 \* PASHA expands progressively: the cap moves up one rung level at a time (the maximum resource after the last one)
                 \cup Flag(capNow > cap /\ capNow # (IF cap \in LevelSet THEN NextLevel(cap) ELSE cf.maxt), "cap_skips_level")
                 \cup Flag(cf.type # "pasha" /\ capNow # cf.maxt, "cap_without_pasha")
            /\ thr' = thr
       ELSE LET enter == r < cf.maxt /\ r \in OwnLevels(br[t]) /\ ~InRung(t, s, r)
                S1    == IF enter THEN rung[<<s, r>>] \cup {[t |-> t, v |-> v, c |-> c, p |-> FALSE]} ELSE {}
            IN
            /\ rung' = IF enter THEN [rung EXCEPT ![<<s, r>>] = S1] ELSE rung
            /\ flags' = flags
                 \cup Flag(r >= cf.maxt /\ d # "STOP", "stop_at_max")                                       \* C03
                 \cup Flag(r < cf.maxt /\ ~enter /\ d # "CONTINUE", "decide_off_rung")                      \* C03
                 \cup Flag(r < cf.maxt /\ enter /\ d \notin StopAllowed(t, r, v, S1), "quantile_rule")      \* C03
                 \cup Flag(d = "PAUSE", "pause_in_stopping")
            \* RUSH: a candidate that survives the quantile rule updates the threshold of its level
            /\ thr' = IF cf.type = "rush_stopping" /\ enter /\ t < cf.nthr /\ d = "CONTINUE"
                        THEN [thr EXCEPT ![r] = IF @ = NoVal \/ Better(v, @) THEN v ELSE @] ELSE thr
  /\ cap' = capNow
  /\ lastr' = [lastr EXCEPT ![t] = r]
  /\ st' = [st EXCEPT ![t] = CASE d = "STOP" -> "stopped" [] d = "PAUSE" -> "paused" [] OTHER -> "running"]
  \* searcher-data bookkeeping in the property's vocabulary
  /\ reps' = IF cf.sd = "none" THEN reps ELSE reps \cup {<<t, r, v>>}
  /\ reached' = IF cf.sd = "none" THEN reached ELSE IF (IsPromotion /\ r = ms[t]) \/ (~IsPromotion /\ (r >= cf.maxt \/ (r \in OwnLevels(br[t]) /\ ~InRung(t, s, r))))
                   THEN reached \cup {<<t, r>>} ELSE reached
  /\ latest' = IF cf.sd = "none" \/ (IsPromotion /\ rf[t] > 0 /\ r <= rf[t]) THEN latest ELSE [latest EXCEPT ![t] = r]
  /\ tie' = (tie \/ (~IsPromotion /\ r < cf.maxt /\ r \in OwnLevels(br[t]) /\ ~InRung(t, s, r)
                      /\ RungVerdict(rung[<<s, r>>] \cup {[t |-> t, v |-> v, c |-> c, p |-> FALSE]}, r, v) = "tie"))
  /\ UNCHANGED <<cf, br, ms, rf, nstart, cmpl>>

\* on_trial_error(t): the run crashed
EvError(t) ==
  /\ st[t] = "running"
  /\ st' = [st EXCEPT ![t] = "failed"]
  /\ UNCHANGED <<cf, lastr, rung, br, ms, rf, cap, thr, nstart, flags, sdV>>

\* on_trial_complete(t): the script ended on its own (after its last report)
EvComplete(t) ==
  /\ st[t] = "running" /\ lastr[t] >= 1
  /\ st' = [st EXCEPT ![t] = "stopped"]
  /\ cmpl' = IF cf.sd = "none" THEN cmpl ELSE cmpl \cup {<<t, lastr[t]>>}
  /\ UNCHANGED <<cf, lastr, rung, br, ms, rf, cap, thr, nstart, flags, reps, reached, latest, tie>>

\* rung sizes read back from the scheduler: sz = [<<s, lv>> -> Nat] as a sequence of <<s, lv, n>>
EvRungSizes(sz) ==
  /\ flags' = flags \cup Flag(\E i \in 1..Len(sz) : <<sz[i][1], sz[i][2]>> \in Keys
                                   /\ Cardinality(rung[<<sz[i][1], sz[i][2]>>]) # sz[i][3], "rung_contents")   \* C03: enters a rung once
  /\ UNCHANGED <<cf, st, lastr, rung, br, ms, rf, cap, thr, nstart, sdV>>

\* the scheduler raised an exception on a legal call
EvCrash ==
  /\ flags' = flags \cup {"scheduler_raised"}
  /\ UNCHANGED <<cf, st, lastr, rung, br, ms, rf, cap, thr, nstart, sdV>>

\* C15: the twin run (other mode, negated metrics) answered differently; excused only if some decision so far was an
\* exact tie (the property exempts thresholds within round-off of a metric value)
EvDiverge ==
  /\ flags' = flags \cup Flag(~tie, "twin_diverged")
  /\ UNCHANGED <<cf, st, lastr, rung, br, ms, rf, cap, thr, nstart, sdV>>

\* the searcher's data set read back after a call: obs = Seq of <<t, r, v>> (v in the reported convention),
\* pend = Seq of <<t, r>>
EvSearcherState(obs, pend) ==
  /\ flags' = flags
       \cup Flag(\E i, j \in 1..Len(obs) : i # j /\ obs[i][1] = obs[j][1] /\ obs[i][2] = obs[j][2], "obs_duplicate")   \* C14
       \cup Flag(\E i \in 1..Len(obs) : <<obs[i][1], obs[i][2], obs[i][3]>> \notin reps, "obs_value")              \* C14
       \cup Flag(\E i, j \in 1..Len(pend) : i # j /\ pend[i] = pend[j], "pending_duplicate")
  /\ pobs' = {<<obs[i][1], obs[i][2]>> : i \in 1..Len(obs)}
  /\ ppend' = {<<pend[i][1], pend[i][2]>> : i \in 1..Len(pend)}
  /\ fresh' = TRUE
  /\ UNCHANGED <<cf, st, lastr, rung, br, ms, rf, cap, thr, nstart, sdV, lur>>

\* C14 as state predicates on the searcher state (evaluated when it is up to date)
ExpectedObs ==
  CASE cf.sd = "all"   -> {<<x[1], x[2]>> : x \in reps}
    [] cf.sd = "rungs" -> {<<x[1], x[2]>> : x \in {y \in reps : y[2] \in LevelSet \/ y[2] = cf.maxt}}
    [] OTHER           -> reached \cup {<<t, latest[t]>> : t \in {u \in Trials : latest[u] > 0}}
\* (the result a trial COMPLETES with may be added to the data set whatever the policy: on_trial_complete passes it on
\*  when it lies beyond the last level the searcher was updated with)
ObsLevelsMatchPolicy == (fresh /\ cf.sd # "none") => (ExpectedObs \subseteq pobs /\ pobs \subseteq ExpectedObs \cup cmpl)
\* the property as stated ("... and no others"): the completion result is no exception (known finding F19: with policy
\* "rungs" a trial that ends on its own between rung levels leaves an observation at a level the policy does not select)
ObsLevelsStrict      == (fresh /\ cf.sd # "none") => (ExpectedObs \subseteq pobs /\ pobs \subseteq ExpectedObs)
PendingOnlyLive      == (fresh /\ cf.sd # "none") => \A p \in ppend : st[p[1]] = "running"
PendingNotObserved   == (fresh /\ cf.sd # "none") => ppend \cap pobs = {}
ObsOnceAndTrue       == NoFlag("obs_duplicate") /\ NoFlag("obs_value") /\ NoFlag("pending_duplicate")

NeverRaises == NoFlag("scheduler_raised")
SameAsTwin  == NoFlag("twin_diverged")
\* C03
EnterRungOnce        == NoFlag("rung_contents")
DecideOnlyAtOwnRungs == NoFlag("decide_off_rung") /\ NoFlag("pause_in_stopping")
StopAtMax            == NoFlag("stop_at_max") /\ NoFlag("beyond_max_resource")
ContinueIffQuantile  == NoFlag("quantile_rule")
\* C04
PauseExactlyAtMilestone == NoFlag("pause_at_milestone") /\ NoFlag("decide_off_milestone")
NeverBeyondCap       == NoFlag("beyond_cap") /\ NoFlag("cap_beyond_max") /\ NoFlag("cap_without_pasha")
CapMonotone          == NoFlag("cap_not_monotone") /\ NoFlag("cap_skips_level")
PromoteOnlyEligible  == NoFlag("promote_ineligible") /\ NoFlag("promoted_twice") /\ NoFlag("promote_not_in_rung")
                        /\ NoFlag("promote_not_paused")
PromoteBestOfHighest == NoFlag("not_highest_rung")
RunToNextRung        == NoFlag("wrong_next_milestone") /\ NoFlag("wrong_max_resource_attr") /\ NoFlag("wrong_first_milestone")
NewTrialIffNoneEligible == NoFlag("start_while_eligible")
IdsInSequence        == NoFlag("trial_id_sequence")

----------------------------------------------------------------------------
(* PROGRAM: what the code computes *)

InitCommon(c) ==
  /\ cf = c
  /\ st = [t \in Trials |-> "none"] /\ lastr = [t \in Trials |-> 0]
  /\ rung = [k \in {<<s, lv>> : s \in 0..((IF c.perbr THEN c.nbr ELSE 1) - 1), lv \in SetOfSeq(c.levels)} |-> {}]
  /\ br = [t \in Trials |-> 0] /\ ms = [t \in Trials |-> 0] /\ rf = [t \in Trials |-> 0]
  /\ cap = c.cap0
  /\ thr = [lv \in SetOfSeq(c.levels) |-> NoVal]
  /\ nstart = 0 /\ flags = {}
  /\ reps = {} /\ reached = {} /\ latest = [t \in Trials |-> 0] /\ cmpl = {} /\ tie = FALSE
  /\ pobs = {} /\ ppend = {} /\ lur = [t \in Trials |-> 0] /\ fresh = TRUE

\* Rung.quantile + the comparison of StoppingRungSystem._task_continues
CodeContinues(S1, lv, v) ==
  IF Cardinality(S1) < 2 THEN TRUE
  ELSE LET cut == CodeQuantile(ValsOf(S1), PromQ(lv), cf.min)
       IN  IF cf.min THEN RLeq(RInt(v), cut) ELSE RGeq(RInt(v), cut)

CodeStopDecision(t, r, v) ==
  IF r >= cf.maxt THEN "STOP"
  ELSE IF r \in OwnLevels(br[t]) /\ ~InRung(t, SysOf(br[t]), r)
    THEN LET S1 == rung[<<SysOf(br[t]), r>>] \cup {[t |-> t, v |-> v, c |-> 0, p |-> FALSE]}
             c0 == CodeContinues(S1, r, v)
             c1 == IF cf.type = "rush_stopping" /\ c0 /\ t >= cf.nthr
                     THEN (thr[r] = NoVal \/ NoWorse(v, thr[r])) ELSE c0
         IN  IF c1 THEN "CONTINUE" ELSE "STOP"
    ELSE "CONTINUE"

CodePromoDecision(t, r) ==
  IF r >= ms[t] THEN (IF r >= cf.maxt THEN "STOP" ELSE "PAUSE") ELSE "CONTINUE"

\* PromotionRungSystem._find_promotable_trial / CostPromotionRungSystem._find_promotable_trial
CodePromotable(s, lv) ==
  LET S == rung[<<s, lv>>] IN
  IF Cardinality(S) < 2 THEN {}
  ELSE IF cf.type = "cost_promotion"
    THEN LET seq == BestFirst(S)
             \* first position whose cumulated cost exceeds q * total stops the scan
             inside(k) == SumCostTo(seq, k) * NextLevel(lv) <= SumCostTo(seq, Len(seq)) * lv
             cand == {k \in 1..Len(seq) : ~seq[k].p /\ \A j \in 1..k : inside(j)}
         IN  IF cand = {} THEN {} ELSE {seq[CHOOSE k \in cand : \A j \in cand : k <= j]}
    ELSE LET cut == CodeQuantile(ValsOf(S), PromQ(lv), cf.min)
         IN  {e \in BestUnp(s, lv) : IF cf.min THEN RLeq(RInt(e.v), cut) ELSE RGeq(RInt(e.v), cut)}

\* on_task_schedule: scan the rungs of the sampled bracket's system from the top
CodeSuggest(b) ==     \* <<"promote", e, from>> or <<"new">>
  LET s  == SysOf(b)
      Ls == {lv \in ScanLevels(s) : CodePromotable(s, lv) # {}}
  IN  IF Ls = {} THEN <<"new">>
      ELSE LET top == CHOOSE lv \in Ls : \A x \in Ls : x <= lv IN <<"promote", top>>

\* HyperbandScheduler._on_config_suggest / _promote_trial: pending evaluations registered with the searcher
PendOnStart(t, first) == IF cf.sd = "rungs" THEN {<<t, first>>} ELSE IF cf.myopic THEN {<<t, 1>>} ELSE {<<t, x>> : x \in 1..first}
PendOnPromote(t, from, to) == IF cf.sd = "rungs" THEN {<<t, to>>} ELSE IF cf.myopic THEN {<<t, from + 1>>}
                              ELSE {<<t, x>> : x \in (from + 1)..to}
A_Suggest(b) ==
  LET cs == CodeSuggest(b) IN
  IF IsPromotion /\ cs[1] = "promote"
    THEN \E e \in CodePromotable(SysOf(b), cs[2]) :
           /\ EvPromote(e.t, cs[2], NextLevel(cs[2]), b, IF cf.mra THEN NextLevel(cs[2]) ELSE 0)
           /\ ppend' = ppend \cup PendOnPromote(e.t, cs[2], NextLevel(cs[2])) /\ UNCHANGED <<pobs, lur, fresh>>
    ELSE /\ nstart < NT /\ EvStart(nstart, b, IF IsPromotion /\ cf.mra THEN FirstMilestone(b) ELSE 0)
         /\ ppend' = ppend \cup PendOnStart(nstart, FirstMilestone(b)) /\ UNCHANGED <<pobs, lur, fresh>>

\* PASHA's decision to grow the cap is float-percentile based: abstracted to "stays or moves up one rung"
CapChoices == IF cf.type # "pasha" THEN {cf.maxt}
              ELSE {cap} \cup (IF cap >= cf.maxt THEN {} ELSE {IF cap \in LevelSet THEN NextLevel(cap) ELSE cf.maxt})

\* HyperbandScheduler.on_trial_result -> _update_searcher -> searcher.on_trial_result(update) (label_trial drops the
\* pending entry of the labelled level), remove_case for "rungs_and_last"
A_Report(t, v, c) ==
  LET r      == NextReportLevel(t)
      d      == IF IsPromotion THEN CodePromoDecision(t, r) ELSE CodeStopDecision(t, r, v)
      cont   == d = "CONTINUE"
      ignore == IsPromotion /\ rf[t] > 0 /\ r <= rf[t]
      msr    == IF IsPromotion THEN r >= ms[t]
                ELSE (r >= cf.maxt \/ (r \in OwnLevels(br[t]) /\ ~InRung(t, SysOf(br[t]), r)))        \* milestone_reached
      nextm  == IF r >= cf.maxt THEN 0                                                                  \* next_milestone (0 = None)
                ELSE IF IsPromotion THEN (IF msr /\ r \in LevelSet THEN NextLevel(r) ELSE 0)
                ELSE (IF msr THEN (IF r \in LevelSet THEN NextLevel(r) ELSE cf.maxt)
                      ELSE LET up == {x \in OwnLevels(br[t]) : x > r} IN IF up = {} THEN cf.maxt ELSE CHOOSE x \in up : \A y \in up : x <= y)
      upd0   == IF cf.sd = "rungs" THEN (r \in LevelSet \/ r = cf.maxt) ELSE TRUE
      upd    == upd0 /\ ~(lur[t] = r)
      newp   == IF cf.sd = "rungs"
                  THEN (IF upd0 /\ cont /\ msr /\ nextm # 0 THEN {<<t, nextm>>} ELSE {})
                  ELSE IF ~cont THEN {}
                  ELSE IF cf.myopic \/ nextm = 0 THEN {<<t, r + 1>>}
                  ELSE IF msr THEN {<<t, x>> : x \in (r + 1)..nextm} ELSE {}
      \* rungs_and_last: the previous result of this trial is removed unless it fell on a milestone
      drop   == IF cf.sd = "rungs_and_last" /\ latest[t] > 0 /\ <<t, latest[t]>> \notin reached THEN {<<t, latest[t]>>} ELSE {}
  IN
  /\ \E cn \in CapChoices : EvReport(t, r, v, c, d, cn)
  /\ IF cf.sd = "none" \/ ignore
       THEN UNCHANGED <<pobs, ppend, lur>>
       ELSE /\ pobs' = IF upd THEN ((pobs \ drop) \cup {<<t, r>>}) ELSE (IF upd0 THEN pobs \ (drop \ {<<t, r>>}) ELSE pobs)
            /\ ppend' = (IF upd THEN ppend \ {<<t, r>>} ELSE ppend) \cup newp
            /\ lur' = IF upd0 THEN [lur EXCEPT ![t] = r] ELSE lur
  /\ fresh' = TRUE

\* on_trial_complete: the last result is passed to the searcher if it lies beyond largest_update_resource (and one exists);
\* cleanup_pending
A_Complete(t) ==
  /\ EvComplete(t)
  /\ pobs' = IF cf.sd # "none" /\ lur[t] # 0 /\ lastr[t] > lur[t] THEN pobs \cup {<<t, lastr[t]>>} ELSE pobs
  /\ ppend' = {p \in ppend : p[1] # t}
  /\ UNCHANGED <<lur, fresh>>

\* on_trial_error -> evaluation_failed -> cleanup_pending
A_Error(t) == EvError(t) /\ ppend' = {p \in ppend : p[1] # t} /\ UNCHANGED <<pobs, lur, fresh>>

Next ==
  \/ \E b \in 0..(cf.nbr - 1) : A_Suggest(b)
  \/ \E t \in Trials, v \in cf.vals, c \in cf.costs : A_Report(t, v, c)
  \/ \E t \in Trials : cf.faults /\ A_Error(t)
  \/ \E t \in Trials : cf.completes /\ A_Complete(t)
=============================================================================
