---------------------------- MODULE SimBackend_MC ----------------------------
EXTENDS SimBackend
CONSTANTS DropStale, TabName, DRes, DFin, DStop, DStart, DCStop, Sleep, Ckpt, MRA, Seed, MaxCalls, Outs
\* tab[c][s][l] = <<metric, elapsed ticks>>; unique metrics encode (c, s, l); elapsed columns incl. a
\* non-monotone one (configuration 2, seed 2)
Tabs == [ a |-> << << << <<111, 100>>, <<112, 250>>, <<113, 400>> >>, << <<121, 120>>, <<122, 240>>, <<123, 500>> >> >>,
                    << << <<211, 300>>, <<212, 310>>, <<213, 900>> >>, << <<221, 200>>, <<222, 150>>, <<223, 155>> >> >> >>,
          b |-> << << << <<111, 5>>, <<112, 100>> >> >>, << << <<211, 70>>, <<212, 140>> >> >> >> ]
Conf == [tab |-> Tabs[TabName], dres |-> DRes, dfin |-> DFin, dstop |-> DStop, dstart |-> DStart, dcstop |-> DCStop,
         sleep |-> Sleep, ckpt |-> Ckpt, mra |-> MRA, eps |-> 1, rep |-> 10, seed |-> Seed, dropstale |-> DropStale, outs |-> Outs]
VARIABLE ncalls
Init == InitCommon(Conf) /\ ncalls = 0
MCNext == Next /\ ncalls' = ncalls + 1
Spec == Init /\ [][MCNext]_<<vars, ncalls>>
Bound == ncalls <= MaxCalls
=============================================================================
