------------------------------- MODULE SyncHB -------------------------------
(***************************************************************************)
(* Synchronous Hyperband: SynchronousHyperbandBracket(Manager) and         *)
(* SynchronousHyperbandScheduler                                           *)
(*   syne_tune/optimizer/schedulers/synchronous/hyperband_bracket.py,      *)
(*   hyperband_bracket_manager.py, hyperband.py                            *)
(*                                                                         *)
(* MONITOR  EvJob / EvResult / EvFail / EvRemovable: the scheduler's       *)
(*          answers are arguments, judged against the property (rung       *)
(*          filled by distinct trials, resume only after the rung is       *)
(*          complete, promoted = best of the completed rung with failures  *)
(*          last, offsets cycle, never blocks).                            *)
(* PROGRAM  A_Suggest / A_Report / A_Fail: transcription of next_job,      *)
(*          on_result, get_top_list and the primary-bracket advance.       *)
(*                                                                         *)
(* cf.de = TRUE: Differential Evolution Hyperband (dehb.py,                *)
(*   dehb_bracket_manager.py), which runs on the same bracket manager:     *)
(*   rung systems are suffixes of the first bracket's, every job is a NEW  *)
(*   trial that is stopped at its milestone -- except in the very first    *)
(*   bracket when cf.pr (support_pause_resume): there the best trials of   *)
(*   the completed rung are paused and resumed as in synchronous Hyperband.*)
(*   Mutation, cross-over and selection only decide WHICH configuration a  *)
(*   new trial evaluates and are outside this specification.               *)
(***************************************************************************)
EXTENDS Integers, Sequences, FiniteSets, TLC, SequencesExt

CONSTANT NT
Trials == 0 .. (NT - 1)
Free == -3      \* slot not handed out
Pend == -2      \* slot handed out, no result yet
NaN  == -1      \* job failed

VARIABLES
  cf,       \* [sys : Seq(Seq(<<size, level>>)), min, mra, de, pr]   sys[o+1] = rung system of offset o
  B,        \* Seq of brackets [off, rg]; rg[i] = Seq of slots [t, v]  (rung i, lowest first)
  primary,  \* index (1-based) of the primary bracket (program)
  pslot,    \* [Trials -> <<b, i, k>>] pending slot of a running trial, <<>> otherwise
  st,       \* [Trials -> "none" | "running" | "paused" | "stopped" | "failed"]
  lastr,    \* [Trials -> last level reported]
  nstart,
  rmv,      \* trials declared removable so far
  flags

vars == <<cf, B, primary, pslot, st, lastr, nstart, rmv, flags>>

Flag(c, f) == IF c THEN {f} ELSE {}
NumOff      == Len(cf.sys)
Sys(b)      == cf.sys[B[b].off + 1]
RSize(b, i) == Sys(b)[i][1]
RLevel(b, i) == Sys(b)[i][2]
NumRungs(b) == Len(Sys(b))
Slots(b, i) == B[b].rg[i]
Handed(b, i)  == {k \in 1..Len(Slots(b, i)) : Slots(b, i)[k].v # Free}
Filled(b, i)  == {k \in 1..Len(Slots(b, i)) : Slots(b, i)[k].v \notin {Free, Pend}}
Complete(b, i) == Cardinality(Filled(b, i)) = RSize(b, i)
\* lowest rung that is not complete (NumRungs + 1 if the bracket is complete)
CurRung(b) == IF \A i \in 1..NumRungs(b) : Complete(b, i) THEN NumRungs(b) + 1
              ELSE CHOOSE i \in 1..NumRungs(b) : ~Complete(b, i) /\ \A j \in 1..(i-1) : Complete(b, j)
BracketDone(b) == CurRung(b) > NumRungs(b)
HasFree(b) == ~BracketDone(b) /\ Cardinality(Handed(b, CurRung(b))) < RSize(b, CurRung(b))
TrialsIn(b, i) == {Slots(b, i)[k].t : k \in Handed(b, i)}
ValOf(b, i, t) == LET k == CHOOSE k \in 1..Len(Slots(b, i)) : Slots(b, i)[k].t = t /\ Slots(b, i)[k].v # Free IN Slots(b, i)[k].v

\* a strictly better than b (failed = worst; two failures are not ordered)
SB(a, b) == /\ a # NaN
            /\ (b = NaN \/ (IF cf.min THEN a < b ELSE a > b))
\* P (subset of the trials of completed rung (b, i)) can be extended to a set of the k best
TopFeasible(b, i, P, k) ==
  Cardinality(P \cup {u \in TrialsIn(b, i) : \E a \in P : SB(ValOf(b, i, u), ValOf(b, i, a))}) <= k

EmptyRung(n) == [k \in 1..n |-> [t |-> -1, v |-> Free]]
NewBracket(o) == [off |-> o, rg |-> [i \in 1..Len(cf.sys[o + 1]) |-> EmptyRung(cf.sys[o + 1][i][1])]]

\* does bracket b (position in B) pause its trials at the milestone and resume the best ones?
Resumes(b) == ~cf.de \/ (cf.pr /\ b = 1)

----------------------------------------------------------------------------
(* MONITOR *)

\* suggest(): job in bracket b (1-based position in B; a new bracket if b = Len(B) + 1), rung i, slot k,
\* level lv, for trial t (isnew = a fresh configuration), mval = config[max_resource_attr]
EvJob(b, i, k, lv, t, isnew, mval) ==
  LET newb == b = Len(B) + 1
      B1   == IF newb THEN Append(B, NewBracket((b - 1) % NumOff)) ELSE B
      sys  == cf.sys[B1[b].off + 1]
      over == k > sys[i][1]        \* a job beyond the configured size of the rung
  IN
  /\ b \in 1..(Len(B) + 1) /\ i \in 1..Len(sys) /\ k >= 1 /\ t \in Trials
  /\ flags' = flags
       \cup Flag(over, "rung_overfilled")                                                        \* C05: rung of the configured size
       \cup Flag(newb /\ \E c \in 1..Len(B) : c >= primary /\ HasFree(c), "new_bracket_while_free")
       \cup Flag(lv # sys[i][2], "wrong_level")
       \cup Flag(~over /\ B1[b].rg[i][k].v # Free, "slot_handed_twice")                          \* C05: rung of the configured size
       \cup Flag(\E j \in 1..sys[i][1] : j # k /\ B1[b].rg[i][j].v # Free /\ B1[b].rg[i][j].t = t, "trial_twice_in_rung")   \* C05: distinct trials
       \cup Flag(i > 1 /\ isnew /\ Resumes(b), "new_trial_in_upper_rung")
       \cup Flag(i = 1 /\ ~isnew, "resume_in_lowest_rung")
       \cup Flag(~isnew /\ ~Resumes(b), "resume_outside_first_bracket")          \* DEHB: later brackets only start trials
       \cup Flag(isnew /\ t # nstart, "trial_id_sequence")
       \cup Flag(~newb /\ i > 1 /\ ~Complete(b, i - 1), "resume_before_rung_complete")           \* C05
       \cup Flag(~isnew /\ ~newb /\ i > 1 /\ Complete(b, i - 1) /\ t \notin TrialsIn(b, i - 1), "promoted_from_elsewhere")
       \cup Flag(~isnew /\ ~newb /\ i > 1 /\ Complete(b, i - 1) /\ t \in TrialsIn(b, i - 1)
                  /\ ~TopFeasible(b, i - 1, (TrialsIn(b, i) \cup {t}) \cap TrialsIn(b, i - 1), RSize(b, i)), "promoted_not_top")   \* C05
       \cup Flag(~isnew /\ t \in rmv, "resume_after_removable")                                 \* C20
       \cup Flag(~isnew /\ st[t] \in {"running", "none"}, "resume_not_paused")                    \* C05
       \* C13 (C05 ranks failures last, it does not exclude them): a failed trial is resumed ...
       \cup Flag(~isnew /\ st[t] = "failed" /\ ~newb /\ i > 1
                  /\ Cardinality({u \in TrialsIn(b, i - 1) : ValOf(b, i - 1, u) # NaN}) >= RSize(b, i), "failed_promoted")          \* ... although enough valid results exist
       \cup Flag(~isnew /\ st[t] = "failed" /\ ~newb /\ i > 1
                  /\ Cardinality({u \in TrialsIn(b, i - 1) : ValOf(b, i - 1, u) # NaN}) < RSize(b, i), "failed_promoted_too_few_valid")   \* ... to fill the next rung
       \cup Flag(~newb /\ i # CurRung(b) /\ ~over, "job_outside_current_rung")
       \cup Flag(cf.mra /\ mval # lv, "wrong_max_resource_attr")
  /\ B' = IF over THEN B1 ELSE [B1 EXCEPT ![b].rg[i][k] = [t |-> t, v |-> Pend]]
  /\ pslot' = [pslot EXCEPT ![t] = IF over THEN <<b, i, 0>> ELSE <<b, i, k>>]      \* slot 0 = a job without a slot
  /\ st' = [st EXCEPT ![t] = "running"]
  /\ lastr' = [lastr EXCEPT ![t] = IF isnew THEN 0 ELSE @]
  /\ nstart' = IF isnew THEN nstart + 1 ELSE nstart
  /\ UNCHANGED <<cf, primary, rmv>>

\* on_trial_result(t, level r, metric v) returned decision d
EvResult(t, r, v, d) ==
  /\ st[t] = "running" /\ pslot[t] # <<>> /\ r = lastr[t] + 1       \* harness physics
  /\ LET b == pslot[t][1]  i == pslot[t][2]  k == pslot[t][3]  lv == RLevel(b, i) IN
     /\ r <= lv
     /\ flags' = flags \cup Flag(r = lv /\ d # (IF Resumes(b) THEN "PAUSE" ELSE "STOP"), "pause_at_milestone")
                       \cup Flag(r < lv /\ d # "CONTINUE", "decide_off_milestone")
     /\ IF r = lv
          THEN /\ B' = IF k = 0 THEN B ELSE [B EXCEPT ![b].rg[i][k].v = v]
               /\ pslot' = [pslot EXCEPT ![t] = <<>>]
               /\ st' = [st EXCEPT ![t] = IF d = "STOP" THEN "stopped" ELSE "paused"]
          ELSE UNCHANGED <<B, pslot, st>>
  /\ lastr' = [lastr EXCEPT ![t] = r]
  /\ UNCHANGED <<cf, primary, nstart, rmv>>

\* on_trial_error(t): the job of a pending slot crashed; the slot counts as filled, ranked last
EvFail(t) ==
  /\ st[t] = "running" /\ pslot[t] # <<>>
  /\ LET b == pslot[t][1]  i == pslot[t][2]  k == pslot[t][3] IN B' = IF k = 0 THEN B ELSE [B EXCEPT ![b].rg[i][k].v = NaN]
  /\ pslot' = [pslot EXCEPT ![t] = <<>>]
  /\ st' = [st EXCEPT ![t] = "failed"]
  /\ UNCHANGED <<cf, primary, lastr, nstart, rmv, flags>>

\* trials_checkpoints_can_be_removed() returned S: every member sits in a completed rung that has a
\* successor rung, is not running, and is not certainly among the best k of that rung
InCompletedRung(t) == \E b \in 1..Len(B) : \E i \in 1..NumRungs(b) : Complete(b, i) /\ t \in TrialsIn(b, i) /\ i < NumRungs(b)
DefinitelyTop(t) ==
  \E b \in 1..Len(B) : \E i \in 1..NumRungs(b) :
     /\ Complete(b, i) /\ t \in TrialsIn(b, i) /\ i < NumRungs(b)
     /\ Cardinality({u \in TrialsIn(b, i) \ {t} : ~SB(ValOf(b, i, t), ValOf(b, i, u))}) < RSize(b, i + 1)
     /\ i = CHOOSE m \in 1..NumRungs(b) : t \in TrialsIn(b, m) /\ \A n \in (m+1)..NumRungs(b) : t \notin TrialsIn(b, n)
EvRemovable(S) ==
  /\ flags' = flags \cup Flag(\E t \in S : st[t] = "running" \/ ~InCompletedRung(t) \/ DefinitelyTop(t), "removable_but_resumable")   \* C20
  /\ rmv' = rmv \cup S
  /\ UNCHANGED <<cf, B, primary, pslot, st, lastr, nstart>>

\* suggest() returned None although configurations are left (the scheduler reports the job it could not fill as failed,
\* "so that the bracket is not blocked"): the request for work was refused.  The slot is the next free one of the first
\* open bracket with a free slot.
EvNoJob ==
  LET cand == {b \in primary..Len(B) : HasFree(b)}
      b == CHOOSE x \in cand : \A c \in cand : x <= c
      i == CurRung(b)
      k == Cardinality(Handed(b, i)) + 1
  IN
  /\ flags' = flags \cup {"suggest_refused"}
  /\ B' = IF cand = {} THEN B ELSE [B EXCEPT ![b].rg[i][k] = [t |-> -1, v |-> NaN]]
  /\ UNCHANGED <<cf, primary, pslot, st, lastr, nstart, rmv>>

EvCrash ==
  /\ flags' = flags \cup {"scheduler_raised"}
  /\ UNCHANGED <<cf, B, primary, pslot, st, lastr, nstart, rmv>>

NoFlag(f) == f \notin flags
RungFilledByDistinctTrials == NoFlag("rung_overfilled") /\ NoFlag("slot_handed_twice") /\ NoFlag("trial_twice_in_rung") /\ NoFlag("wrong_level")
                              /\ NoFlag("new_trial_in_upper_rung") /\ NoFlag("resume_in_lowest_rung")
                              /\ NoFlag("job_outside_current_rung") /\ NoFlag("resume_outside_first_bracket")
ResumeOnlyAfterRungComplete == NoFlag("resume_before_rung_complete") /\ NoFlag("resume_not_paused")
PromotedAreTopK == NoFlag("promoted_not_top") /\ NoFlag("promoted_from_elsewhere")
NextJobNeverBlocks == NoFlag("scheduler_raised") /\ NoFlag("new_bracket_while_free") /\ NoFlag("suggest_refused")
PauseAtMilestone == NoFlag("pause_at_milestone") /\ NoFlag("decide_off_milestone") /\ NoFlag("wrong_max_resource_attr")
IdsInSequence == NoFlag("trial_id_sequence")
FailedNeverPromoted == NoFlag("failed_promoted") /\ NoFlag("failed_promoted_too_few_valid")
RemovableOnlyNonPromoted == NoFlag("removable_but_resumable") /\ NoFlag("resume_after_removable")
\* brackets cycle through the configured rung systems (state invariant)
BracketsCycleOffsets == \A b \in 1..Len(B) : B[b].off = (b - 1) % NumOff
\* a rung never holds more jobs than its size, and a job is only ever pending in the current rung
RungAccounting == \A b \in 1..Len(B) : \A i \in 1..NumRungs(b) :
                     /\ Cardinality(Handed(b, i)) <= RSize(b, i)
                     /\ (i > CurRung(b) => Handed(b, i) = {})

----------------------------------------------------------------------------
(* PROGRAM *)
InitCommon(c) ==
  /\ cf = c
  /\ B = << [off |-> 0, rg |-> [i \in 1..Len(c.sys[1]) |-> [k \in 1..c.sys[1][i][1] |-> [t |-> -1, v |-> Free]]]] >>
  /\ primary = 1
  /\ pslot = [t \in Trials |-> <<>>] /\ st = [t \in Trials |-> "none"] /\ lastr = [t \in Trials |-> 0]
  /\ nstart = 0 /\ rmv = {} /\ flags = {}

\* get_top_list: valid entries sorted by metric (stable: slot order breaks ties), failures appended in slot order
SlotLeq(b, i, x, y) ==
   LET vx == Slots(b, i)[x].v  vy == Slots(b, i)[y].v IN
   IF vx = NaN /\ vy = NaN THEN x <= y
   ELSE IF vx = NaN THEN FALSE ELSE IF vy = NaN THEN TRUE
   ELSE IF vx = vy THEN x <= y ELSE (IF cf.min THEN vx < vy ELSE vx > vy)
CodeTopList(b, i, n) ==
  LET ord == SetToSortSeq(1..Len(Slots(b, i)), LAMBDA x, y : SlotLeq(b, i, x, y)) IN [j \in 1..n |-> Slots(b, i)[ord[j]].t]

\* next_job: first active bracket from the primary with a free slot, else a new bracket
CodeNextBracket ==
  LET cand == {b \in primary..Len(B) : HasFree(b)} IN
  IF cand = {} THEN Len(B) + 1 ELSE CHOOSE b \in cand : \A c \in cand : b <= c

A_Suggest ==
  LET b == CodeNextBracket IN
  IF b = Len(B) + 1
    THEN nstart < NT /\ EvJob(b, 1, 1, cf.sys[((b - 1) % NumOff) + 1][1][2], nstart, TRUE,
                               IF cf.mra THEN cf.sys[((b - 1) % NumOff) + 1][1][2] ELSE 0)
    ELSE LET i == CurRung(b)
             k == Cardinality(Handed(b, i)) + 1
         IN  IF i = 1 \/ ~Resumes(b)      \* (DEHB: a new trial for every job outside the first bracket)
               THEN nstart < NT /\ EvJob(b, i, k, RLevel(b, i), nstart, TRUE, IF cf.mra THEN RLevel(b, i) ELSE 0)
               ELSE LET top == CodeTopList(b, i - 1, RSize(b, i))[k] IN
                    \* DEHB: the slot of a failed job holds no trial id; a promotion that would pick it gives up, the job
                    \* is reported as failed and suggest() answers None (known finding F17)
                    IF cf.de /\ ValOf(b, i - 1, top) = NaN
                      THEN EvNoJob
                      ELSE EvJob(b, i, k, RLevel(b, i), top, FALSE, IF cf.mra THEN RLevel(b, i) ELSE 0)

\* the primary bracket advances when it completes (on_result)
PrimaryAfter(Bn) ==
  LET done(b) == \A i \in 1..Len(cf.sys[Bn[b].off + 1]) :
                    Cardinality({k \in 1..Len(Bn[b].rg[i]) : Bn[b].rg[i][k].v \notin {Free, Pend}}) = cf.sys[Bn[b].off + 1][i][1]
      open == {b \in primary..Len(Bn) : ~done(b)}
  IN  IF open = {} THEN Len(Bn) + 1 ELSE CHOOSE b \in open : \A c \in open : b <= c

A_Report(t, v) ==
  /\ EvResult(t, lastr[t] + 1, v, IF lastr[t] + 1 >= RLevel(pslot[t][1], pslot[t][2])
                                    THEN (IF Resumes(pslot[t][1]) THEN "PAUSE" ELSE "STOP") ELSE "CONTINUE")
A_Fail(t) == EvFail(t)

\* after a result for the primary bracket: move primary; create a new bracket if all are complete
A_Advance ==
  /\ primary <= Len(B) /\ BracketDone(primary)
  /\ LET p == PrimaryAfter(B) IN
       IF p = Len(B) + 1
         THEN B' = Append(B, NewBracket(Len(B) % NumOff)) /\ primary' = Len(B) + 1
         ELSE B' = B /\ primary' = p
  /\ UNCHANGED <<cf, pslot, st, lastr, nstart, rmv, flags>>

Next ==
  \/ (~(primary <= Len(B) /\ BracketDone(primary)) /\ A_Suggest /\ primary' = primary)
  \/ \E t \in Trials, v \in cf.vals : ~(primary <= Len(B) /\ BracketDone(primary)) /\ A_Report(t, v)
  \/ \E t \in Trials : cf.faults /\ ~(primary <= Len(B) /\ BracketDone(primary)) /\ A_Fail(t)
  \/ A_Advance
=============================================================================
