SPECIFICATION Spec
CONSTANTS
  Space = {1, 2, 3, 4}
  Seed = 5
INVARIANT OutputsEqual
