---------------------------- MODULE SyncHB_Trace ----------------------------
EXTENDS SyncHB, Json, IOUtils, TLCExt
Traces == ndJsonDeserialize(IOEnv.TRACE_FILE)
VARIABLES tid, l
tvars == <<vars, tid, l>>
\* JSON: sys is a sequence of sequences of [size, level] pairs (2-element sequences) -- same shape as in the model
TInit == \E i \in 1..Len(Traces) : tid = i /\ l = 1 /\ InitCommon(Traces[i].conf)
TStep(e) ==
  CASE e.a = "Job"       -> EvJob(e.b, e.i, e.k, e.lv, e.t, e.isnew, e.mval)
    [] e.a = "Result"    -> EvResult(e.t, e.r, e.v, e.d)
    [] e.a = "Fail"      -> EvFail(e.t)
    [] e.a = "Removable" -> EvRemovable(ToSet(e.S))
    [] e.a = "NoJob"     -> EvNoJob
    [] e.a = "Crash"     -> EvCrash
TNext == /\ l <= Len(Traces[tid].ev) /\ TStep(Traces[tid].ev[l]) /\ l' = l + 1 /\ tid' = tid
TSpec == TInit /\ [][TNext]_tvars
\* the state invariants of SyncHB are evaluated on every consumed event and reported as flags too
StateFlags == (IF BracketsCycleOffsets THEN {} ELSE {"offsets_not_cycling"})
              \cup (IF RungAccounting THEN {} ELSE {"rung_accounting"})
Report ==
  /\ PrintT(<<"@@P@@", tid, l>>)
  /\ (StateFlags # {}) => PrintT(<<"@@SFL@@", tid, StateFlags>>)
  /\ (l = Len(Traces[tid].ev) + 1) => PrintT(<<"@@FLG@@", tid, flags>>)
=============================================================================
