----------------------------- MODULE Quantile -----------------------------
(* The promotion quantile of asynchronous Hyperband.                        *)
(*                                                                          *)
(* NumpyQuantile : the definition the property names (numpy.quantile,       *)
(*                 method "linear") on an ascending list, exact rationals.  *)
(* CodeQuantile  : transcription of Rung.quantile                           *)
(*                 (syne_tune/optimizer/schedulers/hyperband_stopping.py),  *)
(*                 which works on a list kept BEST FIRST (ascending for     *)
(*                 mode "min", descending for mode "max") and uses          *)
(*                 q = prom_quant resp. 1 - prom_quant.                     *)
(* Cutoff        : what both must deliver to the decision rule: for "min"   *)
(*                 the q-quantile, for "max" the (1-q)-quantile.            *)
EXTENDS Integers, Sequences, Rat

Rev(s) == [i \in 1..Len(s) |-> s[Len(s) + 1 - i]]

\* asc: ascending sequence of integers, q = <<a, b>> with 0 < a < b
NumpyQuantile(asc, q) ==
    LET n    == Len(asc)
        h    == RMul(RInt(n - 1), q)            \* virtual index, 0-based
        i    == RFloor(h)
        g    == RSub(h, RInt(i))
        lo   == asc[i + 1]
        hi   == IF i + 2 <= n THEN asc[i + 2] ELSE asc[i + 1]
    IN  RAdd(RInt(lo), RMul(g, RInt(hi - lo)))

\* data: best-first sequence of integers; pq = <<a, b>>; isMin \in BOOLEAN
CodeQuantile(data, pq, isMin) ==
    LET n     == Len(data)
        q     == IF isMin THEN pq ELSE RSub(RInt(1), pq)
        virt  == RAdd(RMul(RInt(n - 1), q), RInt(1))
        index == RFloor(virt)
        frac  == RSub(virt, RInt(index))
        left  == IF isMin THEN index - 1 ELSE n - index - 1      \* 0-based
        g     == IF isMin THEN frac ELSE RSub(RInt(1), frac)
        v0    == data[left + 1]
        v1    == data[left + 2]
    IN  RAdd(RMul(g, RInt(v1)), RMul(RSub(RInt(1), g), RInt(v0)))

CodeSanity(data, pq, isMin) ==
    LET n     == Len(data)
        q     == IF isMin THEN pq ELSE RSub(RInt(1), pq)
        index == RFloor(RAdd(RMul(RInt(n - 1), q), RInt(1)))
    IN  1 <= index /\ index < n

\* What the documented rule asks for
Cutoff(data, pq, isMin) ==
    IF isMin THEN NumpyQuantile(data, pq)
    ELSE NumpyQuantile(Rev(data), RSub(RInt(1), pq))

\* metric v continues at a rung with best-first data (v included)
\*   "yes" / "no" / "tie"  (tie: equality with the cutoff, either outcome allowed)
ContinueVerdict(data, pq, isMin, v) ==
    IF Len(data) < 2 THEN "yes"
    ELSE LET c == Cutoff(data, pq, isMin) IN
         IF REq(RInt(v), c) THEN "tie"
         ELSE IF isMin THEN (IF RLt(RInt(v), c) THEN "yes" ELSE "no")
              ELSE (IF RGt(RInt(v), c) THEN "yes" ELSE "no")
=============================================================================
