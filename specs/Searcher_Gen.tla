---------------------------- MODULE Searcher_Gen ----------------------------
(* Environment histories for the searcher properties: who is asked for a     *)
(* configuration when, which running trial reports / fails / completes, and  *)
(* (C16) at which positions a snapshot-restore is taken.                     *)
EXTENDS Integers, Sequences, FiniteSets, TLC, Json
CONSTANTS MaxTrials, Workers, GenLen, Restores
VARIABLES running, nsug, hist, nres
vars == <<running, nsug, hist, nres>>
Init == running = {} /\ nsug = 0 /\ hist = <<>> /\ nres = 0
H(r) == hist' = Append(hist, r)
Next ==
  \/ /\ Cardinality(running) < Workers /\ nsug < MaxTrials
     /\ running' = running \cup {nsug} /\ nsug' = nsug + 1 /\ H([a |-> "Suggest"]) /\ UNCHANGED nres
  \/ \E t \in running : /\ H([a |-> "Result", t |-> t]) /\ UNCHANGED <<running, nsug, nres>>
  \/ \E t \in running : /\ running' = running \ {t} /\ H([a |-> "Fail", t |-> t]) /\ UNCHANGED <<nsug, nres>>
  \/ \E t \in running : /\ running' = running \ {t} /\ H([a |-> "Complete", t |-> t]) /\ UNCHANGED <<nsug, nres>>
  \/ /\ nres < Restores /\ nres' = nres + 1 /\ H([a |-> "Restore"]) /\ UNCHANGED <<running, nsug>>
Spec == Init /\ [][Next]_vars
Emit == (Len(hist') = GenLen) => PrintT(<<"@@GEN@@", ToJson(hist')>>)
Bound == Len(hist) <= GenLen
=============================================================================
