---------------------------- MODULE Domains_Trace ----------------------------
EXTENDS Domains, Json, IOUtils, TLCExt
Calls == ndJsonDeserialize(IOEnv.TRACE_FILE)
VARIABLE i
Init == i = 1 /\ \A k \in 1..Len(Calls) : PrintT(<<"@@FLG@@", k, Verdict(Calls[k])>>)
Next == UNCHANGED i
Spec == Init /\ [][Next]_i
=============================================================================
