---------------------------- MODULE TwinSeed_MC ----------------------------
(* C11 at design level: a seeded searcher is a deterministic function of its  *)
(* own generator state (rng cursor), its exclusion set and the history; the   *)
(* environment (global generators, other instances) is a separate variable    *)
(* that NO searcher action reads.  Two copies with equal seeds stepped by the *)
(* same events, one of them interleaved with environment actions, give equal  *)
(* outputs (non-interference).  TLC enumerates where perturbations interleave.*)
EXTENDS Integers, Sequences, FiniteSets, TLC
CONSTANTS Space, Seed
VARIABLES ra, sa, rb, sb, env, outa, outb, n
vars == <<ra, sa, rb, sb, env, outa, outb, n>>
\* a pseudo-random choice among the free configurations, driven only by the instance's own cursor
Pick(r, s) == LET free == Space \ s IN
              IF free = {} THEN 0
              ELSE CHOOSE c \in free : Cardinality({d \in free : d < c}) = (r * 7 + 3) % Cardinality(free)
Init == ra = Seed /\ rb = Seed /\ sa = {} /\ sb = {} /\ env = 0 /\ outa = <<>> /\ outb = <<>> /\ n = 0
Suggest == /\ n < 5 /\ n' = n + 1
           /\ outa' = Append(outa, Pick(ra, sa)) /\ outb' = Append(outb, Pick(rb, sb))
           /\ ra' = ra + 1 /\ rb' = rb + 1
           /\ sa' = sa \cup ({Pick(ra, sa)} \ {0}) /\ sb' = sb \cup ({Pick(rb, sb)} \ {0})
           /\ UNCHANGED env
Perturb == env' = (env + 1) % 3 /\ UNCHANGED <<ra, sa, rb, sb, outa, outb, n>>
Next == Suggest \/ Perturb
Spec == Init /\ [][Next]_vars
OutputsEqual == outa = outb
=============================================================================
