------------------------------ MODULE TunerLoop ------------------------------
(***************************************************************************)
(* The tuning loop of syne-tune (Tuner.run, syne_tune/tuner.py), the       *)
(* generic poll-type backend logic (TrialBackend.fetch_status_results,     *)
(* start/resume/pause/stop, syne_tune/backend/trial_backend.py), scripted  *)
(* worker processes, the checkpoint store, and an abstract scheduler.      *)
(*                                                                         *)
(* The module has three layers:                                            *)
(*                                                                         *)
(*  ENVIRONMENT   worker processes: W_Emit / W_Exit / W_Fail / W_ExtStop.  *)
(*  MONITOR       event operators Ev*(args).  Every call the tuner makes   *)
(*                into a collaborator (backend, scheduler, callbacks) is   *)
(*                one event.  An event operator is TOTAL with respect to   *)
(*                the implementation's behaviour: it never blocks on what  *)
(*                the tuner did, it raises a FLAG instead.  The properties *)
(*                C01, C02, C12, C13, C20 are the invariants "flag f was   *)
(*                never raised".  Guards of event operators only express   *)
(*                the physics of the (harness-side) environment.           *)
(*  PROGRAM       a transcription of Tuner.run and of the generic backend  *)
(*                with a program counter.  Each program action issues      *)
(*                exactly one event.  This layer is what TLC explores      *)
(*                exhaustively (TunerLoop_MC) and what generates           *)
(*                environment schedules for replay (TunerLoop_Gen).        *)
(*                                                                         *)
(* Trace validation (TunerLoop_Trace) uses ENVIRONMENT + MONITOR only: the *)
(* events are taken from a log recorded around the real Tuner.run; the     *)
(* implementation's outputs (which call, which arguments, which decision)  *)
(* are bound from the log and judged by the same invariants.               *)
(***************************************************************************)
EXTENDS Integers, Sequences, FiniteSets, TLC

CONSTANT NT                  \* trial ids are 0 .. NT-1
Trials == 0 .. (NT - 1)
NoTrial == -1

VARIABLES
  cf,        \* run configuration (record, constant along a behaviour)
  \* ---- environment: scripted worker processes (append-only report stream per trial)
  wst,       \* [Trials -> {"none","busy","ok","fail","killed","stopping"}]  process of the current run
             \* ("stopping", cf.linger: a killed job that still occupies its worker for a while, as on SageMaker)
  em,        \* [Trials -> Seq(Nat)]  reports written, per run (Len = number of runs)
  ext,       \* set of trials stopped from outside the scheduler
  \* ---- monitor
  dl,        \* [Trials -> Seq(Nat)]  results delivered to the scheduler, per run
  life,      \* [Trials -> {"none","running","paused","stopped","completed","failed"}]
  dec,       \* [Trials -> {"none","STOP","PAUSE"}] decision of the scheduler on the current run
  ps,        \* [Trials -> {"new","live","removed","completed","errored"}] callback protocol
  ck,        \* [Trials -> {"none","present","deleted"}] checkpoint store
  rmv,       \* trials the scheduler declared "can never be resumed"
  nstart,    \* number of trials started
  nhand,     \* number of results the backend handed to the loop
  mst,       \* statistics of the handed results: [min, max |-> metric value, cost |-> [Trials -> largest cost reported]]
  stopHeld,  \* stopping criterion (or failure limit) was observed TRUE
  exh,       \* scheduler answered "nothing left"
  phase,     \* "loop" | "fin" | "done"
  dead,      \* trials whose failure / external stop the back-end has reported to the loop
  ldx,       \* [Trials -> BOOLEAN] the current run was started with a checkpoint in place (resume / start-from)
  xf,        \* trials whose run exited on its own and has been polled since, while registered as running
  cq,        \* [Trials -> number of queued clone decisions naming the trial, taken while its checkpoint existed]
  flags,     \* set of raised flags
  \* ---- program (Tuner.run locals / attributes, generic backend state)
  pc, running, seen, batch, snap, done, sstop, lsr, tss, stopReached, exhausted, todoN, cur, todo, exc,
  \* ---- program, scheduler side (cf.kind = "pbt": PopulationBasedTraining's clone queue)
  stack,     \* _trial_decisions_stack: clone sources waiting for the next suggest (LIFO)
  pst        \* trials the scheduler marked as stopped (PBTTrialState.stopped)

envV  == <<wst, em, ext>>
monV  == <<dl, life, dec, ps, ck, rmv, nstart, nhand, mst, stopHeld, exh, phase, dead, ldx, xf, cq, flags>>
progV == <<pc, running, seen, batch, snap, done, sstop, lsr, tss, stopReached, exhausted, todoN, cur, todo, exc, stack, pst>>
vars  == <<cf, envV, monV, progV>>

----------------------------------------------------------------------------
(* helpers *)
SumSeq(s) == LET F[i \in 0..Len(s)] == IF i = 0 THEN 0 ELSE F[i-1] + s[i] IN F[Len(s)]
Tot(t)    == SumSeq(em[t])                    \* length of the metrics list of t
CurRun(t) == Len(em[t])
\* position p (1-based) of the concatenated report stream -> <<run, idx>>
PosRunIdx(s, p) ==
  LET F[i \in 1..Len(s)] ==
        IF p <= SumSeq(SubSeq(s, 1, i)) THEN <<i, p - SumSeq(SubSeq(s, 1, i-1))>>
        ELSE IF i = Len(s) THEN <<0, 0>> ELSE F[i+1]
  IN  IF Len(s) = 0 THEN <<0, 0>> ELSE F[1]
Flag(c, f) == IF c THEN {f} ELSE {}
Busy       == {t \in Trials : wst[t] \in {"busy", "stopping"}}      \* trials that occupy a worker
Alive      == {t \in Trials : wst[t] = "busy"}                     \* processes that still run
NumLife(S) == Cardinality({t \in Trials : life[t] \in S})

\* what a poll of the (LocalBackend-like) scripted backend reports as status
BackendStatus(t) ==
  IF t \in ext \/ life[t] = "stopped" THEN "Stopped"
  ELSE IF life[t] = "paused" THEN "Paused"
  ELSE CASE wst[t] = "busy" -> "InProgress"
         [] wst[t] = "ok"   -> "Completed"
         [] wst[t] = "fail" -> "Failed"
         [] OTHER           -> "Stopped"

----------------------------------------------------------------------------
(* ENVIRONMENT *)
W_Emit(t) ==
  /\ wst[t] = "busy" /\ em[t][CurRun(t)] < cf.maxrep
  /\ cf.r3 => pc \notin {"stop", "pause"}                \* environment restriction excluding known finding F03
  /\ em' = [em EXCEPT ![t][CurRun(t)] = @ + 1]
  /\ ck' = [ck EXCEPT ![t] = "present"]      \* the script checkpoints at every report
  /\ UNCHANGED <<wst, ext, dl, life, dec, ps, rmv, nstart, nhand, mst, stopHeld, exh, phase, dead, ldx, xf, cq, flags>>

W_Exit(t) ==
  /\ wst[t] = "busy" /\ (em[t][CurRun(t)] > 0 \/ cf.emptyexit)
  /\ wst' = [wst EXCEPT ![t] = "ok"]
  /\ UNCHANGED <<em, ext, monV>>

W_Fail(t) ==
  /\ wst[t] = "busy"
  /\ Cardinality({u \in Trials : wst[u] = "fail"}) < cf.failb
  /\ wst' = [wst EXCEPT ![t] = "fail"]
  /\ UNCHANGED <<em, ext, monV>>

W_ExtStop(t) ==
  /\ wst[t] = "busy" /\ Cardinality(ext) < cf.extb
  /\ wst' = [wst EXCEPT ![t] = "killed"] /\ ext' = ext \cup {t}
  /\ UNCHANGED <<em, monV>>

\* a killed job that lingered in state "stopping" finally releases its worker
W_Gone(t) ==
  /\ wst[t] = "stopping"
  /\ wst' = [wst EXCEPT ![t] = "killed"]
  /\ UNCHANGED <<em, ext, monV>>

----------------------------------------------------------------------------
(* MONITOR: one operator per observable call.                               *)

\* backend.fetch_status_results returned n new results; D = polled trials it reported as Failed, or as Stopped
\* although the scheduler never stopped them
\* V = the handed results as <<trial, metric value, cost>> (empty where the campaign does not use value criteria)
NoMin == 1000
NoMax == -1000
MinOfSeq(q, d) == LET F[j \in 0..Len(q)] == IF j = 0 THEN d ELSE IF q[j] < F[j-1] THEN q[j] ELSE F[j-1] IN F[Len(q)]
MaxOfSeq(q, d) == LET F[j \in 0..Len(q)] == IF j = 0 THEN d ELSE IF q[j] > F[j-1] THEN q[j] ELSE F[j-1] IN F[Len(q)]
EvFetch(n, D, V) ==
  /\ nhand' = nhand + n
  /\ dead' = dead \cup D
  /\ mst' = [min  |-> MinOfSeq([j \in 1..Len(V) |-> V[j][2]], mst.min),
             max  |-> MaxOfSeq([j \in 1..Len(V) |-> V[j][2]], mst.max),
             cost |-> [t \in Trials |-> MaxOfSeq([j \in 1..Len(V) |-> IF V[j][1] = t THEN V[j][3] ELSE 0], mst.cost[t])]]
  \* a run that exited on its own or crashed before this poll and is registered as running: this poll has to see it
  /\ xf' = xf \cup {t \in Trials : wst[t] \in {"ok", "fail"} /\ life[t] = "running"}
  /\ UNCHANGED <<envV, dl, life, dec, ps, ck, rmv, nstart, stopHeld, exh, phase, ldx, cq, flags>>

\* the process of the current run of t told whether it found a checkpoint when it started (lock-step LocalBackend):
\* the checkpoint store of the implementation is compared with the monitor's
EvLoaded(t, b) ==
  /\ flags' = flags \cup Flag(ldx[t] /\ ~b, "checkpoint_not_found_by_worker")          \* C20
                    \cup Flag(~ldx[t] /\ b, "checkpoint_unexpected")
  /\ UNCHANGED <<envV, dl, life, dec, ps, ck, rmv, nstart, nhand, mst, stopHeld, exh, phase, dead, ldx, xf, cq>>

\* backend.busy_trial_ids() returned S (start_jobs_without_delay = False): an observation of the processes
EvBusy(S) ==
  /\ UNCHANGED <<envV, monV>>

\* scheduler.on_trial_result(trial t, report <<r, i>>) returned decision d
EvResult(t, r, i, d) ==
  LET c == CurRun(t) IN
  /\ flags' = flags
       \cup Flag(ps[t] # "live", "result_outside_run")                      \* C01
       \cup Flag(r < c /\ r >= 1 /\ i > dl[t][r], "stale_hidden_tail")     \* C02
       \cup Flag(r < c /\ r >= 1 /\ i <= dl[t][r], "stale_duplicate")      \* C02
       \cup Flag(r = c /\ i # dl[t][r] + 1, "gap_or_dup")                  \* C02
       \cup Flag(r = c /\ dec[t] # "none", "after_decision")               \* C02
       \cup Flag(r > c \/ r < 1 \/ (r = c /\ i > em[t][r]), "phantom")     \* C02
       \cup Flag(phase # "loop", "result_after_end")
  /\ dl'  = IF r = c /\ r >= 1 THEN [dl EXCEPT ![t][r] = i] ELSE dl
  /\ dec' = IF d \in {"STOP", "PAUSE"} THEN [dec EXCEPT ![t] = d] ELSE dec
  /\ UNCHANGED <<envV, life, ps, ck, rmv, nstart, nhand, mst, stopHeld, exh, phase, dead, ldx, xf, cq>>

\* backend.stop_trial(t) / backend.pause_trial(t): immediate kill
EvStopTrial(t) ==
  /\ flags' = flags \cup Flag(life[t] # "running", "stop_not_running")
                    \cup Flag(dec[t] # "STOP" /\ phase = "loop", "stop_without_decision")
  /\ wst'  = [wst EXCEPT ![t] = IF @ = "busy" THEN (IF cf.linger THEN "stopping" ELSE "killed") ELSE @]
  /\ life' = [life EXCEPT ![t] = "stopped"]
  /\ UNCHANGED <<em, ext, dl, dec, ps, ck, rmv, nstart, nhand, mst, stopHeld, exh, phase, dead, ldx, xf, cq>>

EvPauseTrial(t) ==
  /\ flags' = flags \cup Flag(life[t] # "running", "pause_not_running")
                    \cup Flag(dec[t] # "PAUSE", "pause_without_decision")
  /\ wst'  = [wst EXCEPT ![t] = IF @ = "busy" THEN (IF cf.linger THEN "stopping" ELSE "killed") ELSE @]
  /\ life' = [life EXCEPT ![t] = "paused"]
  /\ UNCHANGED <<em, ext, dl, dec, ps, ck, rmv, nstart, nhand, mst, stopHeld, exh, phase, dead, ldx, xf, cq>>

\* scheduler.on_trial_remove / on_trial_complete / on_trial_error
EvRemove(t) ==
  /\ flags' = flags \cup Flag(ps[t] # "live", "protocol_remove")
                    \cup Flag(dec[t] = "none", "remove_without_decision")
  /\ ps' = [ps EXCEPT ![t] = "removed"]
  /\ UNCHANGED <<envV, dl, life, dec, ck, rmv, nstart, nhand, mst, stopHeld, exh, phase, dead, ldx, xf, cq>>

EvComplete(t) ==
  /\ flags' = flags \cup Flag(ps[t] # "live", "protocol_complete")
                    \cup Flag(wst[t] # "ok", "complete_not_exited")
                    \cup Flag(CurRun(t) >= 1 /\ dl[t][CurRun(t)] < em[t][CurRun(t)], "complete_missing")  \* C02
  /\ ps' = [ps EXCEPT ![t] = "completed"]
  /\ UNCHANGED <<envV, dl, life, dec, ck, rmv, nstart, nhand, mst, stopHeld, exh, phase, dead, ldx, xf, cq>>

EvError(t) ==
  /\ flags' = flags \cup Flag(ps[t] = "removed", "error_after_remove")       \* C01: second end-of-run notification
                    \cup Flag(ps[t] \notin {"live", "removed"}, "protocol_error")   \* C01 / C13: once per failure
                    \cup Flag(~(wst[t] = "fail" \/ t \in ext), "error_not_failed")
  /\ ps' = [ps EXCEPT ![t] = "errored"]
  \* an observed crash is registered as failed whatever was decided before
  /\ life' = [life EXCEPT ![t] = IF wst[t] = "fail" THEN "failed" ELSE IF @ = "running" THEN "stopped" ELSE @]
  /\ UNCHANGED <<envV, dl, dec, ck, rmv, nstart, nhand, mst, stopHeld, exh, phase, dead, ldx, xf, cq>>

\* TunerCallback.on_trial_complete: the loop registered t as completed
EvCbComplete(t) ==
  /\ flags' = flags \cup Flag(wst[t] # "ok", "complete_not_exited")
  /\ life' = [life EXCEPT ![t] = IF @ = "running" THEN "completed" ELSE @]
  /\ UNCHANGED <<envV, dl, dec, ps, ck, rmv, nstart, nhand, mst, stopHeld, exh, phase, dead, ldx, xf, cq>>

\* backend.start_trial(config, checkpoint_trial_id = from) returned trial t
EvStart(t, from) ==
  /\ t \in Trials
  /\ flags' = flags \cup Flag(t # nstart \/ wst[t] # "none", "id_sequence")                       \* C01
                    \cup Flag(Cardinality(Busy) >= cf.nw, "worker_budget")     \* C01
                    \cup Flag(stopHeld, "start_after_stop")                    \* C12
                    \* C20: suggest() named a clone source whose checkpoint is gone; told apart: the clone decision
                    \* was queued while the checkpoint still existed (the source was stopped while queued), or not
                    \cup Flag(from # NoTrial /\ from \in Trials /\ ck[from] # "present" /\ cq[from] > 0,
                              "copy_missing_stopped_while_queued")
                    \cup Flag(from # NoTrial /\ (from \notin Trials \/ (ck[from] # "present" /\ cq[from] = 0)),
                              "copy_missing")
                    \cup Flag(phase # "loop", "start_after_end")
  /\ wst' = [wst EXCEPT ![t] = "busy"]
  /\ em'  = [em EXCEPT ![t] = <<0>>]
  /\ dl'  = [dl EXCEPT ![t] = <<0>>]
  /\ life' = [life EXCEPT ![t] = "running"]
  /\ ck'  = [ck EXCEPT ![t] = IF from \in Trials /\ ck[from] = "present" THEN "present" ELSE "none"]
  /\ nstart' = nstart + 1
  /\ cq' = IF from \in Trials /\ cq[from] > 0 THEN [cq EXCEPT ![from] = @ - 1] ELSE cq
  /\ xf' = xf \ {t}
  /\ ldx' = [ldx EXCEPT ![t] = (from \in Trials /\ ck[from] = "present")]
  /\ UNCHANGED <<ext, dec, ps, rmv, nhand, mst, stopHeld, exh, phase, dead>>

EvAdd(t) ==
  /\ flags' = flags \cup Flag(ps[t] # "new" \/ life[t] # "running", "protocol_add")
  /\ ps' = [ps EXCEPT ![t] = "live"]
  /\ UNCHANGED <<envV, dl, life, dec, ck, rmv, nstart, nhand, mst, stopHeld, exh, phase, dead, ldx, xf, cq>>

\* the scheduler queued "start a new trial from the checkpoint of s" for a later suggest()
\* (PopulationBasedTraining._trial_decisions_stack.append, inside on_trial_result)
EvQueue(s) ==
  /\ cq' = IF s \in Trials /\ ck[s] = "present" THEN [cq EXCEPT ![s] = @ + 1] ELSE cq
  /\ UNCHANGED <<envV, dl, life, dec, ps, ck, rmv, nstart, nhand, mst, stopHeld, exh, phase, dead, ldx, xf, flags>>

\* backend.resume_trial(t)
EvResume(t) ==
  /\ t \in Trials /\ Len(em[t]) >= 1 /\ Len(em[t]) < cf.maxruns
  /\ flags' = flags \cup Flag(life[t] # "paused", "resume_not_paused")         \* C01
                    \cup Flag(Cardinality(Busy) >= cf.nw, "worker_budget")     \* C01
                    \cup Flag(stopHeld, "start_after_stop")                    \* C12
                    \* C20 (cf.spec: speculative early removal was requested: a resumed trial may have lost its checkpoint)
                    \cup Flag(ck[t] # "present" /\ ~cf.spec, "resume_ckpt_missing")
                    \cup Flag(ps[t] # "removed", "protocol_resume")            \* C01
                    \cup Flag(life[t] = "failed", "resume_failed_run")         \* C13 (an OBSERVED failure)
                    \cup Flag(phase # "loop", "start_after_end")
  /\ wst' = [wst EXCEPT ![t] = "busy"]
  /\ em'  = [em EXCEPT ![t] = Append(@, 0)]
  /\ dl'  = [dl EXCEPT ![t] = Append(@, 0)]
  /\ dec' = [dec EXCEPT ![t] = "none"]
  /\ life' = [life EXCEPT ![t] = "running"]
  /\ ps'  = [ps EXCEPT ![t] = "live"]
  /\ xf' = xf \ {t}
  /\ ldx' = [ldx EXCEPT ![t] = (ck[t] = "present")]
  /\ ext' = ext \ {t}           \* a stop from outside concerned the previous run: the resumed run is a new job
  /\ UNCHANGED <<ck, rmv, nstart, nhand, mst, stopHeld, exh, phase, dead, cq>>

\* backend.delete_checkpoint(t)
EvDelete(t) ==
  /\ flags' = flags \cup Flag(~( life[t] \in {"stopped", "completed", "failed", "none"}
                                 \/ phase # "loop"
                                 \/ (life[t] = "paused" /\ (t \in rmv \/ cf.spec)) ), "delete_live")   \* C20
  /\ ck' = [ck EXCEPT ![t] = IF @ = "none" THEN "none" ELSE "deleted"]
  /\ UNCHANGED <<envV, dl, life, dec, ps, rmv, nstart, nhand, mst, stopHeld, exh, phase, dead, ldx, xf, cq>>

\* the scheduler declares S as never-resumable (trials_checkpoints_can_be_removed)
EvRemovable(S) ==
  /\ rmv' = rmv \cup S
  /\ UNCHANGED <<envV, dl, life, dec, ps, ck, nstart, nhand, mst, stopHeld, exh, phase, dead, ldx, xf, cq, flags>>

\* scheduler.suggest returned None
EvExhausted ==
  /\ exh' = TRUE
  /\ UNCHANGED <<envV, dl, life, dec, ps, ck, rmv, nstart, nhand, mst, stopHeld, phase, dead, ldx, xf, cq, flags>>

\* counters the monitor derives from the events
MonFailed   == NumLife({"failed"})
MonCritHolds ==
  CASE cf.ckind = "started"   -> nstart > cf.k
    [] cf.ckind = "completed" -> NumLife({"completed"}) > cf.k
    [] cf.ckind = "finished"  -> NumLife({"completed", "stopped", "failed"}) > cf.k
    [] cf.ckind = "evals"     -> nhand > cf.k
    [] cf.ckind = "minmetric" -> mst.min < cf.k          \* some handed evaluation below the threshold
    [] cf.ckind = "maxmetric" -> mst.max > cf.k
    [] cf.ckind = "cost"      -> SumSeq([j \in 1..NT |-> mst.cost[j-1]]) > cf.k
    [] cf.ckind = "minmax"    -> mst.min < cf.k \/ mst.max > cf.k2      \* both thresholds given: either one trips
    [] OTHER                  -> FALSE
\* Tuner._stop_condition() evaluated to b at the end of an iteration
EvStopCrit(b) ==
  /\ flags' = flags \cup Flag( \/ (cf.ckind # "script" /\ ~cf.also /\ b # (MonCritHolds \/ MonFailed > cf.maxfail))
                               \/ (cf.ckind # "script" /\ cf.also /\ (MonCritHolds \/ MonFailed > cf.maxfail) /\ ~b)   \* other criteria may trip too
                               \/ (cf.ckind = "script" /\ MonFailed > cf.maxfail /\ ~b), "criterion_mismatch")  \* C12
                    \* C13: at the end of the iteration every failure the back-end reported has been passed on
                    \cup Flag(\E t \in dead : ps[t] = "live", "failure_not_notified")
                    \* C01 / C02: a run that exited on its own was polled in a complete iteration, and the loop still has
                    \* it registered as running (its last reports and its end were never passed on)
                    \cup Flag(\E t \in xf : life[t] = "running", "completed_unregistered")
                    \* C13: a crashed process (the environment's truth, whatever status the back-end derived from it) that was
                    \* polled in a complete iteration is registered as a failure, not as a success
                    \cup Flag(\E t \in xf : wst[t] = "fail" /\ life[t] = "completed", "crash_registered_as_success")
  /\ stopHeld' = (stopHeld \/ b)
  /\ UNCHANGED <<envV, dl, life, dec, ps, ck, rmv, nstart, nhand, mst, exh, phase, dead, ldx, xf, cq>>

\* on_loop_start: a new iteration begins
EvIter ==
  /\ flags' = flags \cup Flag(stopHeld /\ ~(cf.wait /\ NumLife({"running"}) > 0), "loop_after_stop")   \* C12
  /\ UNCHANGED <<envV, dl, life, dec, ps, ck, rmv, nstart, nhand, mst, stopHeld, exh, phase, dead, ldx, xf, cq>>

\* backend.stop_all(): S = trials it stopped
EvStopAll(S) ==
  /\ wst'  = [t \in Trials |-> IF t \in S /\ wst[t] = "busy" THEN "killed" ELSE wst[t]]
  \* from the tuner's point of view everything it believed running is now stopped
  /\ life' = [t \in Trials |-> IF life[t] = "running" THEN "stopped" ELSE life[t]]
  /\ phase' = "fin"
  /\ UNCHANGED <<em, ext, dl, dec, ps, ck, rmv, nstart, nhand, mst, stopHeld, exh, dead, ldx, xf, cq, flags>>

\* run() returned (kind = "normal") or raised (kind = "failure": named = trial in the message;
\* kind = "nometrics": a trial completed without reporting; "other")
\* cnt = <<started, completed, failed, finished>> read from TuningStatus
EvEnd(kind, named, cnt) ==
  /\ flags' = flags
       \* (on the simulator a trial that has not reported yet only holds events in the queue and is documented to be
       \*  invisible to stop_all: "left running" is judged where a trial occupies a real or scripted worker)
       \cup Flag(Alive # {} /\ ~cf.sim, "left_running")                                  \* C12
       \cup Flag(kind \notin {"normal", "failure", "nometrics"}, "unexpected_exception")  \* C01 / C13
       \cup Flag(phase # "fin", "no_stop_all")
       \cup Flag(kind \in {"normal", "failure"} /\ (MonFailed > cf.maxfail) # (kind = "failure"), "failure_limit")   \* C13
       \cup Flag(kind = "failure" /\ (named \notin Trials \/ wst[named] # "fail"), "failure_not_named")   \* C13
       \cup Flag(kind = "normal" /\ ~stopHeld /\ ~exh, "ended_early")                    \* C12
       \cup Flag(cf.ckind = "started" /\ nstart > cf.k + cf.nw, "overshoot")             \* C12
       \* (a run aborted in the middle of an iteration by "completed without metrics" has not
       \*  updated its status yet: counters are judged on normal and failure-limit ends)
       \cup Flag(kind \in {"normal", "failure"} /\ cnt # <<>> /\ cnt # <<nstart, NumLife({"completed"}), NumLife({"failed"}),
                                      NumLife({"completed", "stopped", "failed"})>>, "counters")   \* C12
  /\ phase' = "done"
  /\ UNCHANGED <<envV, dl, life, dec, ps, ck, rmv, nstart, nhand, mst, stopHeld, exh, dead, ldx, xf, cq>>

----------------------------------------------------------------------------
(* The properties, as invariants over the monitor *)
NoFlag(f) == f \notin flags

\* C01
WorkerBudget        == NoFlag("worker_budget") /\ Cardinality(Busy) <= cf.nw
IdsInSequence       == NoFlag("id_sequence")
LifeCycle           == NoFlag("stop_not_running") /\ NoFlag("pause_not_running") /\ NoFlag("start_after_end")
                       /\ NoFlag("unexpected_exception")
ResumeOnlyPaused    == NoFlag("resume_not_paused")
CallbackProtocol    == /\ NoFlag("protocol_add") /\ NoFlag("protocol_remove") /\ NoFlag("protocol_complete")
                       /\ NoFlag("protocol_error") /\ NoFlag("error_after_remove") /\ NoFlag("protocol_resume") /\ NoFlag("result_outside_run")
                       /\ NoFlag("remove_without_decision") /\ NoFlag("result_after_end") /\ NoFlag("completed_unregistered")
\* C02
DeliveredIsPrefix   == NoFlag("gap_or_dup") /\ NoFlag("phantom")
NothingAfterDecision == NoFlag("after_decision")
ResumeStartsNewRun  == NoFlag("stale_hidden_tail") /\ NoFlag("stale_duplicate")
CompleteMeansAll    == NoFlag("complete_missing") /\ NoFlag("complete_not_exited") /\ NoFlag("completed_unregistered")
\* C12
NoStartAfterStop    == NoFlag("start_after_stop") /\ NoFlag("loop_after_stop")
EndsOnCriterion     == NoFlag("criterion_mismatch") /\ NoFlag("ended_early") /\ NoFlag("overshoot")
NothingRunningAtReturn == NoFlag("left_running") /\ NoFlag("no_stop_all") /\ ((phase = "done" /\ ~cf.sim) => Alive = {})
CountersMatch       == NoFlag("counters")
\* C13
FailureContained    == NoFlag("error_not_failed") /\ NoFlag("resume_failed_run") /\ NoFlag("unexpected_exception")
                       /\ NoFlag("crash_registered_as_success")
FailureLimit        == NoFlag("failure_limit") /\ NoFlag("failure_not_named")
FailureNotifiedOnce == NoFlag("protocol_error") /\ NoFlag("failure_not_notified")
\* C20
DeleteOnlyWhenDead  == NoFlag("delete_live")
CopySourceExists    == NoFlag("copy_missing") /\ NoFlag("copy_missing_stopped_while_queued")
ResumeSourceExists  == NoFlag("resume_ckpt_missing") /\ NoFlag("checkpoint_not_found_by_worker") /\ NoFlag("checkpoint_unexpected")
StopPauseDecided    == NoFlag("stop_without_decision") /\ NoFlag("pause_without_decision")

----------------------------------------------------------------------------
(* PROGRAM: Tuner.run + generic TrialBackend, one event per step *)

InitCommon(c) ==
  /\ cf = c
  /\ wst = [t \in Trials |-> "none"] /\ em = [t \in Trials |-> <<>>] /\ ext = {}
  /\ dl = [t \in Trials |-> <<>>] /\ life = [t \in Trials |-> "none"]
  /\ dec = [t \in Trials |-> "none"] /\ ps = [t \in Trials |-> "new"]
  /\ ck = [t \in Trials |-> "none"] /\ rmv = {} /\ nstart = 0 /\ nhand = 0
  /\ mst = [min |-> NoMin, max |-> NoMax, cost |-> [t \in Trials |-> 0]]
  /\ stopHeld = FALSE /\ exh = FALSE /\ phase = "loop" /\ dead = {} /\ flags = {}
  /\ cq = [t \in Trials |-> 0] /\ xf = {} /\ ldx = [t \in Trials |-> FALSE] /\ stack = <<>> /\ pst = {}
  /\ pc = "stopcond0" /\ running = {} /\ seen = [t \in Trials |-> 0]
  /\ batch = [t \in Trials |-> <<0, 0>>] /\ snap = [t \in Trials |-> "none"]
  /\ done = [t \in Trials |-> "none"] /\ sstop = {} /\ lsr = {}
  /\ tss = [t \in Trials |-> "none"] /\ stopReached = FALSE /\ exhausted = FALSE
  /\ todoN = 0 /\ cur = NoTrial /\ todo = {} /\ exc = "none"

\* TuningStatus counters as the implementation computes them (from last_trial_status_seen)
TssCount(S)  == Cardinality({t \in Trials : tss[t] \in S})
TssStarted   == Cardinality({t \in Trials : tss[t] # "none"})
ImplCrit ==
  CASE cf.ckind = "started"   -> TssStarted > cf.k
    [] cf.ckind = "completed" -> TssCount({"Completed"}) > cf.k
    [] cf.ckind = "finished"  -> TssCount({"Completed", "Stopped", "Stopping", "Failed"}) > cf.k
    [] cf.ckind = "evals"     -> nhand > cf.k
    \* TuningStatus.overall_metric_statistics / trial_metric_statistics are updated from the handed results
    [] cf.ckind = "minmetric" -> mst.min < cf.k
    [] cf.ckind = "maxmetric" -> mst.max > cf.k
    [] cf.ckind = "cost"      -> SumSeq([j \in 1..NT |-> mst.cost[j-1]]) > cf.k
    [] cf.ckind = "minmax"    -> mst.min < cf.k \/ mst.max > cf.k2      \* both thresholds given: either one trips
    [] OTHER                  -> FALSE
ImplStopCondition == ImplCrit \/ TssCount({"Failed"}) > cf.maxfail

\* stop_condition_reached = self._stop_condition()   (before the loop, and at the end of each iteration)
T_StopCond ==
  /\ pc \in {"stopcond0", "stopcond"}
  \* a scripted criterion is monotone (as every count / time based criterion is)
  /\ \E b \in (IF cf.ckind = "script" THEN {x \/ stopHeld \/ TssCount({"Failed"}) > cf.maxfail : x \in BOOLEAN}
                                        ELSE {ImplStopCondition}) :
        /\ EvStopCrit(b) /\ stopReached' = b
  /\ pc' = "loopcheck"
  /\ UNCHANGED <<cf, running, seen, batch, snap, done, sstop, lsr, tss, exhausted, todoN, cur, todo, exc, stack, pst>>

\* while not stop_condition_reached or wait_trial_completion_when_stopping and len(running) > 0
T_LoopCheck ==
  /\ pc = "loopcheck"
  /\ IF ~stopReached \/ (cf.wait /\ running # {})
       THEN /\ EvIter /\ pc' = "fetch"
       ELSE /\ pc' = "finally" /\ UNCHANGED <<envV, monV>>
  /\ UNCHANGED <<cf, running, seen, batch, snap, done, sstop, lsr, tss, stopReached, exhausted, todoN, cur, todo, exc, stack, pst>>

\* TrialBackend.fetch_status_results(list(running)):  status from the process, new metrics are
\* metrics[seen:] unless the status is Paused/Stopping/Stopped (then hidden, seen NOT advanced)
FetchNew(t) ==
  IF Tot(t) > 0 /\ BackendStatus(t) \notin {"Paused", "Stopping", "Stopped"} THEN <<seen[t], Tot(t)>> ELSE <<0, 0>>
\* the scripted worker's report p (position in the stream of trial t, report i of run r) carries
\* metric value (7 t + 3 r + 5 i) % 11 and cumulative cost (t + 1) p
Val(t, r, i) == (7 * t + 3 * r + 5 * i) % 11
TrialValues(t) == IF t \in running
                    THEN [p \in 1..(FetchNew(t)[2] - FetchNew(t)[1]) |->
                            LET ri == PosRunIdx(em[t], FetchNew(t)[1] + p) IN <<t, Val(t, ri[1], ri[2]), (t + 1) * (FetchNew(t)[1] + p)>>]
                    ELSE <<>>
HandedValues == LET F[j \in 0..NT] == IF j = 0 THEN <<>> ELSE F[j-1] \o TrialValues(j-1) IN F[NT]
T_Fetch ==
  /\ pc = "fetch"
  /\ batch' = [t \in Trials |-> IF t \in running THEN FetchNew(t) ELSE <<0, 0>>]
  /\ seen'  = [t \in Trials |-> IF t \in running /\ FetchNew(t) # <<0, 0>> THEN Tot(t) ELSE seen[t]]
  /\ snap'  = [t \in Trials |-> IF t \in running THEN BackendStatus(t) ELSE "none"]
  /\ done'  = [t \in Trials |-> "none"]
  /\ EvFetch(SumSeq([i \in 1..NT |-> IF (i-1) \in running THEN FetchNew(i-1)[2] - FetchNew(i-1)[1] ELSE 0]),
             {t \in running : BackendStatus(t) = "Failed" \/ (BackendStatus(t) = "Stopped" /\ t \in ext)},
             HandedValues)
  /\ pc' = "results"
  /\ UNCHANGED <<cf, running, sstop, lsr, tss, stopReached, exhausted, todoN, cur, todo, exc, stack, pst>>

Decisions == IF cf.kind = "pause" THEN {"CONTINUE", "STOP", "PAUSE"} ELSE {"CONTINUE", "STOP"}

SeqSet(q) == {q[j] : j \in 1..Len(q)}

\* PopulationBasedTraining.on_trial_result, exploit branch (cf.kind = "pbt"): trial t is in the lower quantile; a trial
\* s of the upper quantile (not marked stopped, has a score) is queued as clone source, t is marked stopped and STOP
\* is returned.  The quantiles are abstracted to "any other scored trial that is not marked stopped".
T_Exploit(t, s) ==
  /\ pc = "results" /\ cf.kind = "pbt" /\ batch[t][1] < batch[t][2] /\ done[t] = "none"
  /\ s # t /\ s \in lsr /\ s \notin pst /\ t \notin pst
  /\ EvQueue(s)
  /\ stack' = Append(stack, s)
  /\ cur' = t /\ pc' = "exploit"
  /\ UNCHANGED <<cf, running, seen, batch, snap, done, sstop, lsr, tss, stopReached, exhausted, todoN, todo, exc, pst>>

\* for trial_id, result in new_results: if trial_id not in done_trials: decision = on_trial_result(...)
\* (results are sorted by worker time stamp: any merge that keeps each trial's own order)
T_Result(t, d) ==
  /\ \/ pc = "results"
     \/ pc = "exploit" /\ t = cur /\ d = "STOP"
  /\ batch[t][1] < batch[t][2] /\ done[t] = "none"
  /\ (cf.r13 /\ snap[t] = "Failed") => d = "CONTINUE"     \* environment restriction excluding known finding F13
  \* schedule restriction excluding known finding F08: no STOP for a trial that is queued as clone source
  /\ (cf.r8 /\ d = "STOP") => t \notin SeqSet(stack)
  /\ LET ri == PosRunIdx(em[t], batch[t][1] + 1) IN EvResult(t, ri[1], ri[2], d)
  /\ batch' = [batch EXCEPT ![t][1] = @ + 1]
  /\ lsr' = lsr \cup {t}
  /\ cur' = t
  /\ pst' = IF d = "STOP" THEN pst \cup {t} ELSE pst
  /\ pc' = CASE d = "STOP" -> (IF snap[t] # "Completed" THEN "stop" ELSE "remove_s")
             [] d = "PAUSE" -> "pause"
             [] OTHER -> "results"
  /\ UNCHANGED <<cf, running, seen, snap, done, sstop, tss, stopReached, exhausted, todoN, todo, exc, stack>>

\* if status != Completed: status = Stopped; backend.stop_trial(...)
T_Stop ==
  /\ pc = "stop" /\ EvStopTrial(cur)
  /\ pc' = IF cf.del THEN "stopdel" ELSE "remove_s"
  /\ UNCHANGED <<cf, running, seen, batch, snap, done, sstop, lsr, tss, stopReached, exhausted, todoN, cur, todo, exc, stack, pst>>
\* TrialBackend.stop_trial: if self.delete_checkpoints: self.delete_checkpoint(trial_id)
T_StopDel ==
  /\ pc = "stopdel" /\ EvDelete(cur) /\ pc' = "remove_s"
  /\ UNCHANGED <<cf, running, seen, batch, snap, done, sstop, lsr, tss, stopReached, exhausted, todoN, cur, todo, exc, stack, pst>>
T_Pause ==
  /\ pc = "pause" /\ EvPauseTrial(cur) /\ pc' = "remove_p"
  /\ UNCHANGED <<cf, running, seen, batch, snap, done, sstop, lsr, tss, stopReached, exhausted, todoN, cur, todo, exc, stack, pst>>
\* scheduler.on_trial_remove(trial); done_trials[trial_id] = (trial, status); the rest of the batch of
\* this trial is skipped by the "not in done_trials" guard
T_Remove ==
  /\ pc \in {"remove_s", "remove_p"} /\ EvRemove(cur)
  /\ done' = [done EXCEPT ![cur] = IF pc = "remove_p" THEN "Paused"
                                   ELSE IF snap[cur] = "Completed" THEN "Completed" ELSE "Stopped"]
  /\ sstop' = IF pc = "remove_s" THEN sstop \cup {cur} ELSE sstop
  /\ batch' = [batch EXCEPT ![cur] = <<0, 0>>]
  /\ pc' = "results"
  /\ UNCHANGED <<cf, running, seen, snap, lsr, tss, stopReached, exhausted, todoN, cur, todo, exc, stack, pst>>

BatchEmpty == \A t \in Trials : batch[t][1] >= batch[t][2] \/ done[t] # "none"
T_ResultsDone ==
  /\ pc = "results" /\ BatchEmpty
  /\ todo' = running /\ pc' = "statuses"
  /\ UNCHANGED <<cf, envV, monV, running, seen, batch, snap, done, sstop, lsr, tss, stopReached, exhausted, todoN, cur, exc, stack, pst>>

\* second loop of _update_running_trials: for trial_id, (trial, status) in trial_status_dict.items()
\* (uses the status of the poll, not the overridden one)
MinOf(S) == CHOOSE x \in S : \A y \in S : x <= y
T_Status ==
  /\ pc = "statuses" /\ todo # {}
  /\ LET t == MinOf(todo) IN
     /\ todo' = todo \ {t}
     /\ cur' = t
     /\ CASE snap[t] = "Completed" ->
               IF t \notin lsr
                 THEN /\ exc' = "nometrics" /\ pc' = "finally"
                      /\ UNCHANGED <<envV, monV, done>>
                 ELSE /\ exc' = exc
                      /\ IF done[t] = "none" THEN EvComplete(t) /\ pc' = "cbcomplete"
                         ELSE /\ UNCHANGED <<envV, monV>>
                              /\ pc' = IF done[t] = "Paused" THEN "statuses" ELSE "cbcomplete"
                      /\ done' = [done EXCEPT ![t] = IF @ = "Paused" THEN "Paused" ELSE "Completed"]
          [] snap[t] = "Failed" ->
               /\ EvError(t) /\ done' = [done EXCEPT ![t] = "Failed"] /\ pc' = "statuses" /\ exc' = exc
          [] snap[t] = "Stopped" /\ t \notin sstop ->
               /\ EvError(t) /\ done' = [done EXCEPT ![t] = "Stopped"] /\ pc' = "statuses" /\ exc' = exc
          [] OTHER -> /\ UNCHANGED <<envV, monV, done, exc>> /\ pc' = "statuses"
  /\ UNCHANGED <<cf, running, seen, batch, snap, sstop, lsr, tss, stopReached, exhausted, todoN, stack, pst>>
\* if status == Completed: callback.on_trial_complete(trial, last_result)
T_CbComplete ==
  /\ pc = "cbcomplete" /\ EvCbComplete(cur) /\ pc' = "statuses"
  /\ UNCHANGED <<cf, running, seen, batch, snap, done, sstop, lsr, tss, stopReached, exhausted, todoN, cur, todo, exc, stack, pst>>

\* trial_status_dict.update(done); tuning_status.update(...); running -= done
T_StatusUpdate ==
  /\ pc = "statuses" /\ todo = {}
  /\ tss' = [t \in Trials |-> IF t \in running THEN (IF done[t] # "none" THEN done[t] ELSE snap[t]) ELSE tss[t]]
  /\ running' = {t \in running : done[t] = "none"}
  /\ pc' = "sched"
  /\ UNCHANGED <<cf, envV, monV, seen, batch, snap, done, sstop, lsr, stopReached, exhausted, todoN, cur, todo, exc, stack, pst>>

\* the if / else around _schedule_new_tasks
T_Sched ==
  /\ pc = "sched"
  /\ IF exhausted \/ (cf.wait /\ stopReached)
       THEN /\ pc' = IF running # {} THEN "loopend" ELSE "finally"    \* sleep / break
            /\ todoN' = 0
       ELSE IF ~cf.sjwd
         THEN pc' = "busy" /\ todoN' = 0           \* start_jobs_without_delay = False: ask the back-end
         ELSE LET thr == IF cf.async THEN cf.nw ELSE 1 IN
            IF Cardinality(running) >= thr
              THEN pc' = "loopend" /\ todoN' = 0                        \* sleep
              ELSE pc' = "suggest" /\ todoN' = cf.nw - Cardinality(running)
  /\ UNCHANGED <<cf, envV, monV, running, seen, batch, snap, done, sstop, lsr, tss, stopReached, exhausted, cur, todo, exc, stack, pst>>

\* _schedule_new_tasks with start_jobs_without_delay = False: num_busy_workers = len(backend.busy_trial_ids());
\* new trials are added to the caller's running set (the statement that re-bound the local name to the busy set,
\* and thereby lost the new trials, was removed by the fix recorded as F14)
BackendBusy == {t \in Trials : (wst[t] # "none" /\ BackendStatus(t) = "InProgress") \/ wst[t] = "stopping"}
T_Busy ==
  /\ pc = "busy"
  /\ EvBusy(BackendBusy)
  /\ LET thr == IF cf.async THEN cf.nw ELSE 1
         nb  == Cardinality(BackendBusy) IN
       IF nb >= thr THEN pc' = "loopend" /\ todoN' = 0
                    ELSE pc' = "suggest" /\ todoN' = cf.nw - nb
  /\ UNCHANGED <<cf, running, seen, batch, snap, done, sstop, lsr, tss, stopReached, exhausted, cur, todo, exc, stack, pst>>

\* scheduler.suggest(): an abstract LEGAL scheduler -- a new trial, a paused trial it removed, or None
T_SuggestNew ==
  /\ pc = "suggest" /\ todoN > 0 /\ nstart < NT
  \* PopulationBasedTraining._suggest: pop the most recent clone decision if there is one
  /\ IF stack # <<>>
       THEN EvStart(nstart, stack[Len(stack)]) /\ stack' = SubSeq(stack, 1, Len(stack) - 1)
       ELSE EvStart(nstart, NoTrial) /\ stack' = stack
  /\ cur' = nstart /\ pc' = "add"
  /\ UNCHANGED <<cf, running, seen, batch, snap, done, sstop, lsr, tss, stopReached, exhausted, todoN, todo, exc, pst>>
T_Add ==
  /\ pc = "add" /\ EvAdd(cur)
  /\ running' = running \cup {cur} /\ tss' = [tss EXCEPT ![cur] = "InProgress"]
  /\ todoN' = todoN - 1 /\ pc' = "suggest"
  /\ UNCHANGED <<cf, seen, batch, snap, done, sstop, lsr, stopReached, exhausted, cur, todo, exc, stack, pst>>
T_SuggestResume(t) ==
  /\ pc = "suggest" /\ todoN > 0 /\ cf.kind = "pause"
  /\ life[t] = "paused" /\ ps[t] = "removed" /\ t \notin running
  /\ EvResume(t)
  /\ running' = running \cup {t} /\ tss' = [tss EXCEPT ![t] = "InProgress"]
  /\ todoN' = todoN - 1
  /\ UNCHANGED <<cf, pc, seen, batch, snap, done, sstop, lsr, stopReached, exhausted, cur, todo, exc, stack, pst>>
T_SuggestNone ==
  /\ pc = "suggest" /\ todoN > 0 /\ (cf.mayexhaust \/ nstart >= NT)
  /\ EvExhausted /\ exhausted' = TRUE /\ todoN' = 0 /\ pc' = "loopend"
  /\ UNCHANGED <<cf, running, seen, batch, snap, done, sstop, lsr, tss, stopReached, cur, todo, exc, stack, pst>>
T_SuggestDone ==
  /\ pc = "suggest" /\ todoN = 0 /\ pc' = "loopend"
  /\ UNCHANGED <<cf, envV, monV, running, seen, batch, snap, done, sstop, lsr, tss, stopReached, exhausted, todoN, cur, todo, exc, stack, pst>>
\* callback.on_loop_end of an early-removal callback (cf.spec: speculative removal was requested): the checkpoint of
\* a trial the loop has registered as paused is deleted (which one is the callback's business)
T_SpecDelete(t) ==
  /\ pc = "loopend" /\ cf.spec
  /\ tss[t] = "Paused" /\ t \notin running /\ ck[t] = "present"
  /\ EvDelete(t)
  /\ UNCHANGED <<cf, pc, running, seen, batch, snap, done, sstop, lsr, tss, stopReached, exhausted, todoN, cur, todo, exc, stack, pst>>
T_LoopEnd ==
  /\ pc = "loopend" /\ pc' = "stopcond"
  /\ UNCHANGED <<cf, envV, monV, running, seen, batch, snap, done, sstop, lsr, tss, stopReached, exhausted, todoN, cur, todo, exc, stack, pst>>

\* finally: backend.stop_all(); mark_running_job_as_stopped(); failure error
T_StopAll ==
  /\ pc = "finally"
  /\ EvStopAll({t \in Trials : life[t] # "none" /\ BackendStatus(t) = "InProgress"})
  /\ tss' = [t \in Trials |-> IF tss[t] = "InProgress" THEN "Stopped" ELSE tss[t]]
  /\ pc' = "end"
  /\ UNCHANGED <<cf, running, seen, batch, snap, done, sstop, lsr, stopReached, exhausted, todoN, cur, todo, exc, stack, pst>>
FailedSeen == {t \in Trials : tss[t] = "Failed"}
T_End ==
  /\ pc = "end"
  /\ IF Cardinality(FailedSeen) > cf.maxfail
       THEN EvEnd("failure", MinOf(FailedSeen), <<TssStarted, TssCount({"Completed"}), TssCount({"Failed"}),
                                                    TssCount({"Completed", "Stopped", "Stopping", "Failed"})>>)
       ELSE EvEnd(IF exc = "none" THEN "normal" ELSE exc, NoTrial,
                  <<TssStarted, TssCount({"Completed"}), TssCount({"Failed"}),
                    TssCount({"Completed", "Stopped", "Stopping", "Failed"})>>)
  /\ pc' = "done"
  /\ UNCHANGED <<cf, running, seen, batch, snap, done, sstop, lsr, tss, stopReached, exhausted, todoN, cur, todo, exc, stack, pst>>

\* Worker steps commute with every tuner step that does not observe the processes; it is
\* therefore enough (and sound for the monitored properties) to let them happen right
\* before an observation: a poll, a kill, the final stop_all.
ObsPoint == pc \in {"fetch", "stop", "pause", "finally", "busy"}
W_Step ==
  /\ ObsPoint
  /\ \E t \in Trials : W_Emit(t) \/ W_Exit(t) \/ W_Fail(t) \/ W_ExtStop(t) \/ W_Gone(t)
  /\ UNCHANGED <<cf, progV>>

T_Step ==
  \/ T_StopCond \/ T_LoopCheck \/ T_Fetch
  \/ \E t \in Trials, d \in Decisions : T_Result(t, d)
  \/ \E t \in Trials, s \in Trials : T_Exploit(t, s)
  \/ T_Stop \/ T_StopDel \/ T_Pause \/ T_Remove \/ T_ResultsDone \/ T_Status \/ T_CbComplete
  \/ T_StatusUpdate \/ T_Sched \/ T_Busy \/ T_SuggestNew \/ T_Add \/ (\E t \in Trials : T_SuggestResume(t))
  \/ T_SuggestNone \/ T_SuggestDone \/ (\E t \in Trials : T_SpecDelete(t)) \/ T_LoopEnd \/ T_StopAll \/ T_End

Next == T_Step \/ W_Step

\* C12 liveness: with fair workers and a fair tuner every run ends
\* a worker keeps reporting and finally exits; observation points recur, hence strong fairness
Fairness == /\ WF_vars(T_Step)
            /\ \A t \in Trials : /\ SF_vars(ObsPoint /\ W_Exit(t) /\ UNCHANGED <<cf, progV>>)
                                  /\ SF_vars(ObsPoint /\ W_Emit(t) /\ UNCHANGED <<cf, progV>>)
Terminates == <>(pc = "done")
=============================================================================
