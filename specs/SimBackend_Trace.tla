--------------------------- MODULE SimBackend_Trace ---------------------------
EXTENDS SimBackend, Json, IOUtils, TLCExt
Traces == ndJsonDeserialize(IOEnv.TRACE_FILE)
VARIABLES tid, l
tvars == <<vars, tid, l>>
TInit == \E i \in 1..Len(Traces) : tid = i /\ l = 1 /\ InitCommon(Traces[i].conf)
TStep(e) ==
  CASE e.a = "Start"  -> EvStart(e.t, e.c, e.lim, e.now)
    [] e.a = "Resume" -> EvResume(e.t, e.lim, e.now)
    [] e.a = "Fetch"  -> EvFetch(ToSet(e.ids), e.res, e.now)
    [] e.a = "Pause"  -> EvPause(e.t, e.lv, e.now)
    [] e.a = "Stop"   -> EvStop(e.t, e.now)
    [] e.a = "Sleep"  -> EvSleep(e.now)
    [] e.a = "Outside" -> EvOutside(e.d)
    [] e.a = "Crash"  -> EvCrash
TNext == /\ l <= Len(Traces[tid].ev) /\ TStep(Traces[tid].ev[l]) /\ l' = l + 1 /\ tid' = tid /\ UNCHANGED <<cf, progV>>
TSpec == TInit /\ [][TNext]_tvars
Report ==
  /\ PrintT(<<"@@P@@", tid, l>>)
  /\ (l = Len(Traces[tid].ev) + 1) => PrintT(<<"@@FLG@@", tid, flags>>)
=============================================================================
