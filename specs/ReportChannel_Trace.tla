-------------------------- MODULE ReportChannel_Trace --------------------------
(* One line of TRACE_FILE = one captured stdout of a script: the chunks the    *)
(* script wrote (token abstraction of the real characters), and what the real  *)
(* retrieve() returned (number of dictionaries, equality bits, counters).      *)
EXTENDS ReportChannel, Json, IOUtils, TLCExt
Runs == ndJsonDeserialize(IOEnv.TRACE_FILE)
VARIABLE k
StreamOf(r) == LET F[i \in 0..Len(r.chunks)] == IF i = 0 THEN <<>> ELSE F[i-1] \o r.chunks[i].tok IN F[Len(r.chunks)]
ReportedOf(r) == LET F[i \in 0..Len(r.chunks)] ==
                        IF i = 0 THEN <<>> ELSE IF r.chunks[i].kind = "report" THEN Append(F[i-1], r.chunks[i].pay) ELSE F[i-1]
                 IN F[Len(r.chunks)]
Verdict(r) ==
  (IF Extract(StreamOf(r)) = ReportedOf(r) THEN {} ELSE {"framing_model"})            \* the design, on this very stream
  \cup (IF r.nret = Len(ReportedOf(r)) THEN {} ELSE {"extracted_count"})               \* the implementation
  \cup (IF \A i \in 1..Len(r.eq) : r.eq[i] THEN {} ELSE {"payload_changed"})
  \cup (IF \A a, b \in 1..Len(r.iters) : a < b => r.iters[a] < r.iters[b] THEN {} ELSE {"counter_not_increasing"})
  \cup (IF \A a, b \in 1..Len(r.stamps) : a < b => r.stamps[a] <= r.stamps[b] THEN {} ELSE {"stamps_decreasing"})
  \cup (IF r.rejected_ok THEN {} ELSE {"bad_report_not_rejected"})
  \cup (IF r.rejected_silent THEN {} ELSE {"rejected_report_left_trace"})
  \cup (IF r.good_ok THEN {} ELSE {"serialisable_report_rejected"})      \* a report the property promises to deliver raised
TInit == Init /\ k = 1 /\ \A i \in 1..Len(Runs) : PrintT(<<"@@FLG@@", i, Verdict(Runs[i])>>)
TNext == UNCHANGED <<vars, k>>
TSpec == TInit /\ [][TNext]_<<vars, k>>
=============================================================================
