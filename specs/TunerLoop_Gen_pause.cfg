INIT GInit
NEXT GNext
CONSTANTS
  NT = 3
  NW = 2
  MaxRep = 3
  MaxRuns = 3
  MaxFail = 1
  Kind = "pause"
  Async = TRUE
  Wait = FALSE
  Del = TRUE
  FailB = 2
  ExtB = 1
  CKind = "script"
  K = 0
  EmptyExit = TRUE
  MayExhaust = TRUE
  R3 = FALSE
  R13 = FALSE
  MinLen = 60
ACTION_CONSTRAINT Emit
ACTION_CONSTRAINT Late
