SPECIFICATION Spec
CONSTANTS
  NT = 2
  NW = 2
  MaxRep = 2
  MaxRuns = 2
  MaxFail = 1
  Kind = "pause"
  Async = TRUE
  Wait = FALSE
  Del = TRUE
  FailB = 1
  ExtB = 0
  CKind = "script"
  K = 0
  EmptyExit = FALSE
  MayExhaust = FALSE
  R3 = TRUE
  R13 = TRUE
INVARIANT WorkerBudget
INVARIANT IdsInSequence
INVARIANT LifeCycle
INVARIANT ResumeOnlyPaused
INVARIANT CallbackProtocol
INVARIANT DeliveredIsPrefix
INVARIANT NothingAfterDecision
INVARIANT ResumeStartsNewRun
INVARIANT CompleteMeansAll
INVARIANT NoStartAfterStop
INVARIANT EndsOnCriterion
INVARIANT NothingRunningAtReturn
INVARIANT CountersMatch
INVARIANT FailureContained
INVARIANT FailureLimit
INVARIANT DeleteOnlyWhenDead
INVARIANT CopySourceExists
INVARIANT ResumeSourceExists
INVARIANT StopPauseDecided
