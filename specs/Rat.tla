------------------------------- MODULE Rat -------------------------------
(* Exact rationals as <<num, den>> with den > 0, never normalised.          *)
(* All comparisons by cross-multiplication; TLC integers are 32 bit, so     *)
(* the specifications keep numerators/denominators below ~10^4.             *)
EXTENDS Integers

R(n, d)      == <<n, d>>
RInt(n)      == <<n, 1>>
RNum(x)      == x[1]
RDen(x)      == x[2]
RAdd(x, y)   == <<x[1] * y[2] + y[1] * x[2], x[2] * y[2]>>
RSub(x, y)   == <<x[1] * y[2] - y[1] * x[2], x[2] * y[2]>>
RMul(x, y)   == <<x[1] * y[1], x[2] * y[2]>>
RNeg(x)      == <<-x[1], x[2]>>
RLt(x, y)    == x[1] * y[2] <  y[1] * x[2]
RLeq(x, y)   == x[1] * y[2] =< y[1] * x[2]
REq(x, y)    == x[1] * y[2] =  y[1] * x[2]
RGt(x, y)    == RLt(y, x)
RGeq(x, y)   == RLeq(y, x)
\* floor for den > 0 (TLC's \div rounds towards minus infinity)
RFloor(x)    == x[1] \div x[2]
RIsRat(x)    == x[2] > 0
=============================================================================
