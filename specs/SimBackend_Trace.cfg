SPECIFICATION TSpec
CONSTANTS
  NT = 10
CONSTRAINT Report
CHECK_DEADLOCK FALSE
