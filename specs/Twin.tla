-------------------------------- MODULE Twin --------------------------------
(***************************************************************************)
(* Self-composition judged on recorded runs (C11 reproducibility, C15 mode *)
(* symmetry) for components that have no rule-level monitor of their own:  *)
(* two real objects are stepped through the same events; one line of       *)
(* TRACE_FILE = one twin run, ev = sequence of [same |-> BOOLEAN,            *)
(* excused |-> BOOLEAN] (excused: the property exempts this step, e.g. an    *)
(* exact tie).  The twins must agree on every non-excused step.              *)
(***************************************************************************)
EXTENDS Integers, Sequences, TLC, Json, IOUtils
Runs == ndJsonDeserialize(IOEnv.TRACE_FILE)
VARIABLE k
Verdict(r) ==
  (IF \A i \in 1..Len(r.ev) : r.ev[i].same \/ r.ev[i].excused THEN {} ELSE {"twin_diverged"})
  \cup (IF r.crashed THEN {"raised"} ELSE {})
\* first step at which the twins differ (0 = never)
FirstDiff(r) == IF \A i \in 1..Len(r.ev) : r.ev[i].same \/ r.ev[i].excused THEN 0
                ELSE CHOOSE i \in 1..Len(r.ev) : ~(r.ev[i].same \/ r.ev[i].excused)
                         /\ \A j \in 1..(i - 1) : r.ev[j].same \/ r.ev[j].excused
Init == k = 1 /\ \A i \in 1..Len(Runs) : PrintT(<<"@@FLG@@", i, Verdict(Runs[i])>>) /\ PrintT(<<"@@DIFF@@", i, FirstDiff(Runs[i])>>)
Next == UNCHANGED k
Spec == Init /\ [][Next]_k
=============================================================================
