SPECIFICATION TSpec
CONSTANTS
  NT = 14
CONSTRAINT Report
CHECK_DEADLOCK FALSE
