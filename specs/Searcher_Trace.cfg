SPECIFICATION TSpec
CONSTRAINT Report
CHECK_DEADLOCK FALSE
