---------------------------- MODULE ReportChannel ----------------------------
(***************************************************************************)
(* The metric channel between a training script and the tuner (C18):       *)
(*   syne_tune/report.py  Reporter.__call__ / _report_logger write         *)
(*       "[tune-metric]: " + json + newline   on stdout, mixed with any    *)
(*       other output of the script;                                       *)
(*   retrieve(lines) = re.findall(r"\[tune-metric\]: (\{.*\})",            *)
(*       "\n".join(lines)), then json.loads of each capture.               *)
(* Token alphabet: TAG (the tag incl. ": "), LB "{", RB "}", NL newline,   *)
(* Q double quote, BS backslash, O any other character.                    *)
(* A report is TAG LB payload RB NL; JSON never emits a raw newline, the   *)
(* serialised dictionary starts with LB and ends with RB; everything else  *)
(* (braces, quotes, backslashes, the tag itself) may occur in the payload. *)
(* Noise is any token string without TAG.                                  *)
(***************************************************************************)
EXTENDS Integers, Sequences, FiniteSets, TLC, SequencesExt

VARIABLES stream,    \* Seq of tokens written so far
          reported,  \* Seq of payloads (token strings between the outer braces), in report order
          iter,      \* Reporter.iter
          iters,     \* counters attached to the accepted reports
          flags
vars == <<stream, reported, iter, iters, flags>>

PayTok   == {"TAG", "LB", "RB", "Q", "BS", "O"}
NoiseTok == {"LB", "RB", "NL", "Q", "BS", "O"}

\* ---- the reader: transcription of the regular expression on the joined text
\* split at NL
RECURSIVE SplitAt(_, _)
SplitAt(s, acc) ==
  IF s = <<>> THEN <<acc>>
  ELSE IF Head(s) = "NL" THEN <<acc>> \o SplitAt(Tail(s), <<>>) ELSE SplitAt(Tail(s), Append(acc, Head(s)))
SplitSeq(s) == SplitAt(s, <<>>)
\* leftmost TAG immediately followed by LB with some RB later in the line; the capture is greedy to the LAST RB
MatchInLine(ln) ==
  LET starts == {i \in 1..Len(ln) : ln[i] = "TAG" /\ i + 1 <= Len(ln) /\ ln[i + 1] = "LB" /\ \E j \in (i + 2)..Len(ln) : ln[j] = "RB"}
  IN  IF starts = {} THEN <<>>
      ELSE LET i == CHOOSE x \in starts : \A y \in starts : x <= y
               j == CHOOSE x \in (i + 2)..Len(ln) : ln[x] = "RB" /\ \A y \in (x + 1)..Len(ln) : ln[y] # "RB"
           IN  << SubSeq(ln, i + 2, j - 1) >>       \* payload between the outer braces
               \* (findall continues after j: no further RB exists there, hence no further match in this line)
Extract(s) == LET ls == SplitSeq(s)
                  F[k \in 0..Len(ls)] == IF k = 0 THEN <<>> ELSE F[k - 1] \o MatchInLine(ls[k])
              IN  F[Len(ls)]

\* ---- the writer
Report(p) ==      \* an accepted report with payload p
  /\ stream' = stream \o <<"TAG", "LB">> \o p \o <<"RB", "NL">>
  /\ reported' = Append(reported, p)
  /\ iters' = Append(iters, iter) /\ iter' = iter + 1
  /\ UNCHANGED flags
Rejected ==       \* reserved key / unserialisable / oversized: an exception, nothing is written
  /\ iter' \in {iter, iter + 1}      \* (the counter may or may not have been consumed)
  /\ UNCHANGED <<stream, reported, iters, flags>>
Noise(s) ==       \* other output of the script, with or without trailing newline
  /\ stream' = stream \o s
  /\ UNCHANGED <<reported, iter, iters, flags>>

Init == stream = <<>> /\ reported = <<>> /\ iter = 0 /\ iters = <<>> /\ flags = {}

ExtractedEqualsReported  == Extract(stream) = reported
CounterStrictlyIncreasing == \A a, b \in 1..Len(iters) : a < b => iters[a] < iters[b]
=============================================================================
