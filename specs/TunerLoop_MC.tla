---------------------------- MODULE TunerLoop_MC ----------------------------
(* Exhaustive exploration of TunerLoop for small constants.                 *)
EXTENDS TunerLoop

CONSTANTS NW, MaxRep, MaxRuns, MaxFail, Kind, Async, Wait, Del, FailB, ExtB, CKind, K, EmptyExit, MayExhaust, R3, R13, R8, Sjwd, SpecRm, K2, Linger

Conf == [nw |-> NW, maxrep |-> MaxRep, maxruns |-> MaxRuns, maxfail |-> MaxFail, kind |-> Kind,
         async |-> Async, wait |-> Wait, del |-> Del, failb |-> FailB, extb |-> ExtB,
         ckind |-> CKind, k |-> K, k2 |-> K2, emptyexit |-> EmptyExit, mayexhaust |-> MayExhaust, r3 |-> R3, r13 |-> R13, r8 |-> R8, sjwd |-> Sjwd, linger |-> Linger, spec |-> SpecRm, also |-> FALSE, sim |-> FALSE]

Init == InitCommon(Conf)
Spec == Init /\ [][Next]_vars
LiveSpec == Init /\ [][Next]_vars /\ Fairness

\* witnesses (anti-vacuity): each of these must be VIOLATED by TLC in the witness config
W_NoResume    == \A t \in Trials : Len(em[t]) < 2
W_NoFailure   == \A t \in Trials : life[t] # "failed"
W_NoSkipped   == \A t \in Trials : ~(pc = "results" /\ done[t] # "none" /\ batch[t][1] < batch[t][2])
W_NoDone      == pc # "done"
=============================================================================
