--------------------------- MODULE Searcher_Trace ---------------------------
EXTENDS Searcher, Json, IOUtils, TLCExt
Traces == ndJsonDeserialize(IOEnv.TRACE_FILE)
VARIABLES tid, l
tvars == <<vars, tid, l>>
TInit == \E i \in 1..Len(Traces) : tid = i /\ l = 1 /\ InitCommon(Traces[i].conf)
TStep(e) ==
  CASE e.a = "Suggest" -> EvSuggest(e.t, e.c, e.keys, e.consts, e.types, e.clone)
    [] e.a = "Fail"    -> EvFail(e.t)
    [] e.a = "None"    -> EvNone
    [] e.a = "Crash"   -> EvCrash
    [] e.a = "Diverge" -> EvDiverge
    [] OTHER           -> EvOther
TNext == /\ l <= Len(Traces[tid].ev) /\ TStep(Traces[tid].ev[l]) /\ l' = l + 1 /\ tid' = tid
TSpec == TInit /\ [][TNext]_tvars
Report ==
  /\ PrintT(<<"@@P@@", tid, l>>)
  /\ (l = Len(Traces[tid].ev) + 1) => PrintT(<<"@@FLG@@", tid, flags>>)
=============================================================================
