----------------------------- MODULE SimBackend -----------------------------
(***************************************************************************)
(* The simulator back-end on a tabulated benchmark:                        *)
(*   syne_tune/backend/simulator_backend/simulator_backend.py (event heap, *)
(*   _schedule, fetch_status_results, _stop_or_pause_trial), events.py,    *)
(*   time_keeper.py, blackbox_repository/simulated_tabular_backend.py      *)
(*   (_run_job_and_collect_results: resume offset, monotonicity repair).   *)
(*                                                                         *)
(* Time is an integer number of ticks (cf.tick ticks per second is a       *)
(* harness convention; the code's constants 1e-3 and 0.01 are cf.eps and   *)
(* cf.rep ticks).                                                          *)
(*                                                                         *)
(* MONITOR  Ev*: public calls of the back-end with what they returned      *)
(*          (results with level, metric, time stamp; the clock after the   *)
(*          call).  Judged: values from the table, consecutive levels,     *)
(*          stable seed, stamp formula, clock monotone, sleep charged once,*)
(*          nothing after stop.                                            *)
(* PROGRAM  the event heap and its processing, transcribed.                *)
(***************************************************************************)
EXTENDS Integers, Sequences, FiniteSets, TLC, SequencesExt

CONSTANT NT
Trials == 0 .. (NT - 1)

VARIABLES
  cf,       \* [tab, dres, dfin, dstop, dstart, dcstop, sleep, ckpt, mra, eps, rep, seed]
            \*   tab[c][s][l] = <<metric, elapsed>>  (configuration c, seed s, level l), all 1-based
  now,      \* simulated clock
  owed,     \* real time spent outside the back-end since its last call returned (to be charged once by the next call)
  cfgOf,    \* [Trials -> configuration index, 0 = not started]
  seedOf,   \* [Trials -> seed index, 0 = not yet known]
  runStart, \* [Trials -> time the current run starts on the worker]
  base,     \* [Trials -> level the current run resumed from (0 = from scratch)]
  limit,    \* [Trials -> last level of the current run (max_resource_attr)]
  nextLv,   \* [Trials -> next level the current run will deliver]
  lastSt,   \* [Trials -> stamp of the last delivered result]
  mode,     \* [Trials -> "none" | "running" | "paused" | "stopped"]
  pausedAt, \* [Trials -> level recorded at pause, 0 if none]
  flags,
  \* ---- program
  heap,     \* set of [time, cnt, kind, t, lv]
  cnt,
  ready,    \* [Trials -> Seq of <<lv, stamp>>]  results processed but not yet fetched
  prun      \* [Trials -> [c, s, b, lim]]  what the next Start event of the trial will run

monV  == <<now, owed, cfgOf, seedOf, runStart, base, limit, nextLv, lastSt, mode, pausedAt, flags>>
progV == <<heap, cnt, ready, prun>>
vars  == <<cf, monV, progV>>

Flag(c, f) == IF c THEN {f} ELSE {}
NumLevels(c) == Len(cf.tab[c][1])
NumSeeds(c)  == Len(cf.tab[c])
Metric(c, s, l)  == cf.tab[c][s][l][1]
RawEl(c, s, l)   == cf.tab[c][s][l][2]

\* elapsed times of a run that delivers levels (b+1) .. n of (c, s): rebased at the resume point when
\* checkpointing is supported, then repaired to be strictly increasing by at least cf.rep
RunElapsed(c, s, b) ==
  LET n   == NumLevels(c)
      off == IF b > 0 THEN RawEl(c, s, b) ELSE 0
      raw == [i \in 1..(n - b) |-> RawEl(c, s, b + i) - off]
      F[i \in 1..(n - b)] == IF i = 1 THEN (IF raw[1] > cf.rep THEN raw[1] ELSE cf.rep)
                             ELSE (IF raw[i] > F[i-1] + cf.rep THEN raw[i] ELSE F[i-1] + cf.rep)
  IN  F
\* stamp the property prescribes for level l of the current run of t with seed s
Stamp(t, s, l) == runStart[t] + RunElapsed(cfgOf[t], s, base[t])[l - base[t]] + cf.dres

----------------------------------------------------------------------------
(* MONITOR *)

\* start_trial(config c, config[max_resource_attr] = lim) returned trial t; clock after the call = n1
EvStart(t, c, lim, n1) ==
  /\ t \in Trials /\ mode[t] = "none" /\ c \in 1..Len(cf.tab)
  /\ flags' = flags \cup Flag(n1 < now, "clock_backwards") \cup Flag(n1 # now + owed, "outside_time_not_charged_once")
  /\ now' = n1 /\ owed' = 0
  /\ cfgOf' = [cfgOf EXCEPT ![t] = c]
  /\ seedOf' = [seedOf EXCEPT ![t] = IF cf.seed > 0 THEN cf.seed ELSE 0]
  /\ runStart' = [runStart EXCEPT ![t] = n1 + cf.dstart]
  /\ base' = [base EXCEPT ![t] = 0] /\ nextLv' = [nextLv EXCEPT ![t] = 1]
  /\ limit' = [limit EXCEPT ![t] = IF cf.mra THEN lim ELSE NumLevels(c)]
  /\ lastSt' = [lastSt EXCEPT ![t] = 0]
  /\ mode' = [mode EXCEPT ![t] = "running"]
  /\ UNCHANGED pausedAt

\* resume_trial(t) with config[max_resource_attr] = lim
EvResume(t, lim, n1) ==
  /\ mode[t] = "paused"
  /\ flags' = flags \cup Flag(n1 < now, "clock_backwards") \cup Flag(n1 # now + owed, "outside_time_not_charged_once")
  /\ now' = n1 /\ owed' = 0
  /\ runStart' = [runStart EXCEPT ![t] = n1 + cf.dstart]
  /\ base' = [base EXCEPT ![t] = IF cf.ckpt THEN pausedAt[t] ELSE 0]
  /\ nextLv' = [nextLv EXCEPT ![t] = IF cf.ckpt THEN pausedAt[t] + 1 ELSE 1]
  /\ limit' = [limit EXCEPT ![t] = IF cf.mra THEN lim ELSE NumLevels(cfgOf[t])]
  /\ mode' = [mode EXCEPT ![t] = "running"]
  /\ UNCHANGED <<cfgOf, seedOf, lastSt, pausedAt>>

\* one result <<t, level, metric, stamp>> of a fetch; S = seeds still possible for t
SeedsFor(t, l, m) == IF seedOf[t] > 0 THEN {seedOf[t]}
                     ELSE {s \in 1..NumSeeds(cfgOf[t]) : l \in 1..NumLevels(cfgOf[t]) /\ Metric(cfgOf[t], s, l) = m}
\* fetch_status_results(ids) returned res = Seq of <<t, level, metric, stamp>>; clock after the call n1
RECURSIVE ApplyResults(_, _, _, _, _, _)
ApplyResults(res, i, nl, so, ls, fl) ==
  IF i > Len(res) THEN <<nl, so, ls, fl>>
  ELSE LET t == res[i][1]  l == res[i][2]  m == res[i][3]  st == res[i][4]
           S == IF so[t] > 0 THEN {so[t]} ELSE {s \in 1..NumSeeds(cfgOf[t]) : l \in 1..NumLevels(cfgOf[t]) /\ Metric(cfgOf[t], s, l) = m}
       IN ApplyResults(res, i + 1, [nl EXCEPT ![t] = l + 1],
                       [so EXCEPT ![t] = IF so[t] = 0 /\ Cardinality(S) = 1 THEN CHOOSE s \in S : TRUE ELSE so[t]],
                       [ls EXCEPT ![t] = st], fl)
EvFetch(ids, res, n1) ==
  /\ owed' = 0
  /\ flags' = flags \cup Flag(n1 < now, "clock_backwards") \cup Flag(n1 # now + owed, "outside_time_not_charged_once")
       \cup UNION { LET t == res[i][1] IN
                    \* judged against the state reached after the previous results of the same batch
                    LET pre == ApplyResults(SubSeq(res, 1, i - 1), 1, nextLv, seedOf, lastSt, {}) IN
                    LET c  == cfgOf[t]  l == res[i][2]  m == res[i][3]  st == res[i][4]
                        ok == l \in 1..NumLevels(c)
                        S  == IF pre[2][t] > 0 THEN {pre[2][t]} ELSE {s \in 1..NumSeeds(c) : ok /\ Metric(c, s, l) = m}
                    IN  Flag(mode[t] # "running", "result_after_stop")
                        \cup Flag(t \notin ids, "result_for_unpolled_trial")
                        \cup Flag(~ok \/ l # pre[1][t], "level_not_consecutive")
                        \cup Flag(ok /\ l > limit[t], "beyond_max_resource")
                        \cup Flag(ok /\ (S = {} \/ (pre[2][t] > 0 /\ Metric(c, pre[2][t], l) # m)), "value_not_from_table")
                        \cup Flag(ok /\ l = pre[1][t] /\ S # {} /\ (pre[2][t] = 0 \/ Metric(c, pre[2][t], l) = m)
                                  /\ ~(\E s \in S : Stamp(t, s, l) = st), "stamp_formula")
                        \cup Flag(st > n1, "stamp_in_future") \cup Flag(st < pre[3][t], "stamp_backwards")
                  : i \in 1..Len(res) }
  /\ LET post == ApplyResults(res, 1, nextLv, seedOf, lastSt, {}) IN
       nextLv' = post[1] /\ seedOf' = post[2] /\ lastSt' = post[3]
  /\ now' = n1
  /\ UNCHANGED <<cfgOf, runStart, base, limit, mode, pausedAt>>

\* pause_trial(t, result at level lv) / stop_trial(t)
EvPause(t, lv, n1) ==
  /\ mode[t] = "running"
  \* (a blocking stop also advances the clock by the stop delays: the outside time is a lower bound here)
  /\ flags' = flags \cup Flag(n1 < now, "clock_backwards") \cup Flag(n1 < now + owed, "outside_time_not_charged_once")
  /\ owed' = 0
  /\ now' = n1 /\ mode' = [mode EXCEPT ![t] = "paused"] /\ pausedAt' = [pausedAt EXCEPT ![t] = lv]
  /\ UNCHANGED <<cfgOf, seedOf, runStart, base, limit, nextLv, lastSt>>
EvStop(t, n1) ==
  /\ mode[t] = "running"
  /\ flags' = flags \cup Flag(n1 < now, "clock_backwards") \cup Flag(n1 < now + owed, "outside_time_not_charged_once")
  /\ owed' = 0
  /\ now' = n1 /\ mode' = [mode EXCEPT ![t] = "stopped"]
  /\ UNCHANGED <<cfgOf, seedOf, runStart, base, limit, nextLv, lastSt, pausedAt>>

\* the tuning loop slept: SimulatorCallback.on_tuning_sleep
EvSleep(n1) ==
  /\ flags' = flags \cup Flag(n1 # now + cf.sleep, "sleep_not_charged_once")
  /\ now' = n1
  /\ UNCHANGED <<owed, cfgOf, seedOf, runStart, base, limit, nextLv, lastSt, mode, pausedAt>>

\* d ticks of real time pass outside the back-end (the tuning loop and the scheduler compute)
EvOutside(d) ==
  /\ owed' = owed + d
  /\ UNCHANGED <<now, cfgOf, seedOf, runStart, base, limit, nextLv, lastSt, mode, pausedAt, flags>>

EvCrash == flags' = flags \cup {"backend_raised"}
           /\ UNCHANGED <<now, owed, cfgOf, seedOf, runStart, base, limit, nextLv, lastSt, mode, pausedAt>>

NoFlag(f) == f \notin flags
ClockMonotone     == NoFlag("clock_backwards") /\ NoFlag("stamp_in_future") /\ NoFlag("stamp_backwards")
ResultsFromTable  == NoFlag("value_not_from_table")
LevelsConsecutive == NoFlag("level_not_consecutive") /\ NoFlag("beyond_max_resource")
StampFormula      == NoFlag("stamp_formula")
WaitChargedOnce   == NoFlag("sleep_not_charged_once") /\ NoFlag("outside_time_not_charged_once")
NoEventAfterStop  == NoFlag("result_after_stop") /\ NoFlag("result_for_unpolled_trial")
NeverRaises       == NoFlag("backend_raised")

----------------------------------------------------------------------------
(* PROGRAM: event heap *)
InitCommon(c) ==
  /\ cf = c /\ now = 0 /\ owed = 0
  /\ cfgOf = [t \in Trials |-> 0] /\ seedOf = [t \in Trials |-> 0] /\ runStart = [t \in Trials |-> 0]
  /\ base = [t \in Trials |-> 0] /\ limit = [t \in Trials |-> 0] /\ nextLv = [t \in Trials |-> 1]
  /\ lastSt = [t \in Trials |-> 0] /\ mode = [t \in Trials |-> "none"] /\ pausedAt = [t \in Trials |-> 0]
  /\ flags = {}
  /\ heap = {} /\ cnt = 0 /\ ready = [t \in Trials |-> <<>>]
  /\ prun = [t \in Trials |-> [c |-> 0, s |-> 0, b |-> 0, lim |-> 0]]

Min2(a, b) == IF a < b THEN a ELSE b
\* events of a run of (c, s) from level b+1 to lim that starts on the worker at time ts
RunEvents(t, r, ts, k0) ==
  LET el == RunElapsed(r.c, r.s, r.b)
      n  == Min2(r.lim, NumLevels(r.c)) - r.b
  IN  {[time |-> ts + el[i] + cf.dres, cnt |-> k0 + i, kind |-> "Result", t |-> t, lv |-> r.b + i] : i \in 1..n}
      \cup {[time |-> ts + (IF n >= 1 THEN el[n] ELSE 0) + cf.dfin, cnt |-> k0 + n + 1, kind |-> "Complete", t |-> t, lv |-> 0]}

\* _process_events_until_now: pop events in (time, insertion) order while time <= upto
RECURSIVE Process(_, _, _, _, _)
Process(h, rd, upto, k, pr) ==
  LET due == {e \in h : e.time <= upto} IN
  IF due = {} THEN <<h, rd, k>>
  ELSE LET e == CHOOSE x \in due : \A y \in due : x.time < y.time \/ (x.time = y.time /\ x.cnt <= y.cnt) IN
       CASE e.kind = "Start"    -> Process((h \ {e}) \cup RunEvents(e.t, pr[e.t], e.time, k), rd, upto, k + NumLevels(pr[e.t].c) + 2, pr)
         [] e.kind = "Result"   -> Process(h \ {e}, [rd EXCEPT ![e.t] = Append(@, <<e.lv, e.time>>)], upto, k, pr)
         [] e.kind = "Complete" -> Process(h \ {e}, rd, upto, k, pr)
         [] e.kind = "Stop"     -> Process({x \in h : x.t # e.t}, rd, upto, k, pr)

\* every back-end call first charges the real time spent outside (_advance_by_outside_time) ...
Entry == now + owed
\* ... and marks its exit at the end (mark_exit); between two calls real time may pass
A_Outside(d) == EvOutside(d) /\ UNCHANGED progV

\* start_trial: _schedule processes the past, then pushes Start at now + delay_start
A_Start(t, c, s, lim) ==
  /\ mode[t] = "none" /\ (IF t = 0 THEN TRUE ELSE mode[t - 1] # "none")
  /\ LET p == Process(heap, ready, Entry, cnt, prun) IN
       /\ heap' = p[1] \cup {[time |-> Entry + cf.dstart, cnt |-> p[3], kind |-> "Start", t |-> t, lv |-> 0]}
       /\ ready' = p[2] /\ cnt' = p[3] + 1
  /\ prun' = [prun EXCEPT ![t] = [c |-> c, s |-> s, b |-> 0, lim |-> IF cf.mra THEN lim ELSE NumLevels(c)]]
  /\ EvStart(t, c, lim, Entry)

A_Resume(t, lim) ==
  /\ mode[t] = "paused" /\ (cf.mra => lim > pausedAt[t])
  /\ (cf.ckpt => pausedAt[t] < NumLevels(prun[t].c))     \* legal envelope: something is left to run
  /\ LET p == Process(heap, ready, Entry, cnt, prun) IN
       /\ heap' = p[1] \cup {[time |-> Entry + cf.dstart, cnt |-> p[3], kind |-> "Start", t |-> t, lv |-> 0]}
       /\ ready' = p[2] /\ cnt' = p[3] + 1
  /\ prun' = [prun EXCEPT ![t].b = IF cf.ckpt THEN pausedAt[t] ELSE 0,
                           ![t].lim = IF cf.mra THEN lim ELSE NumLevels(prun[t].c)]
  /\ EvResume(t, lim, Entry)

\* fetch_status_results(ids): results of polled trials are returned, the others are dropped (but counted as seen)
SeqOfSet(S) == SetToSeq(S)
A_Fetch(ids) ==
  LET p   == Process(heap, ready, Entry, cnt, prun)
      rd  == p[2]
      out == [t \in Trials |-> IF t \in ids THEN rd[t] ELSE <<>>]
      \* the batch in trial order (the tabular back-end does not sort: results carry no worker time stamp)
      F[i \in 0..NT] == IF i = 0 THEN <<>> ELSE F[i-1] \o [j \in 1..Len(out[i-1]) |->
                              <<i-1, out[i-1][j][1], Metric(prun[i-1].c, prun[i-1].s, out[i-1][j][1]), out[i-1][j][2]>>]
  IN  /\ heap' = p[1] /\ cnt' = p[3] /\ ready' = [t \in Trials |-> <<>>] /\ prun' = prun
      /\ EvFetch(ids, F[NT], Entry)

\* _stop_or_pause_trial
StopSteps(t) ==
  LET tstop == Entry + cf.dstop
      h1    == heap \cup {[time |-> tstop, cnt |-> cnt, kind |-> "Stop", t |-> t, lv |-> 0]}
      n1    == tstop + cf.eps
      p1    == Process(h1, ready, n1, cnt + 1, prun)
      tc    == n1 + cf.dcstop
      h2    == p1[1] \cup {[time |-> tc, cnt |-> p1[3], kind |-> "Complete", t |-> t, lv |-> 0]}
      n2    == tc + cf.eps
      p2    == Process(h2, p1[2], n2, p1[3] + 1, prun)
  IN  <<p2[1], p2[2], p2[3], n2>>
A_Pause(t, lv) ==
  /\ mode[t] = "running" /\ lv = nextLv[t] - 1 /\ lv >= 1
  /\ LET r == StopSteps(t) IN heap' = r[1] /\ ready' = (IF cf.dropstale THEN [r[2] EXCEPT ![t] = <<>>] ELSE r[2]) /\ cnt' = r[3] /\ EvPause(t, lv, r[4])
  /\ prun' = prun
A_Stop(t) ==
  /\ mode[t] = "running"
  /\ LET r == StopSteps(t) IN heap' = r[1] /\ ready' = (IF cf.dropstale THEN [r[2] EXCEPT ![t] = <<>>] ELSE r[2]) /\ cnt' = r[3] /\ EvStop(t, r[4])
  /\ prun' = prun
A_Sleep == EvSleep(now + cf.sleep) /\ UNCHANGED progV

Next ==
  \/ \E t \in Trials, c \in 1..Len(cf.tab) : \E s \in 1..NumSeeds(c), lim \in 1..NumLevels(c) :
        (cf.seed > 0 => s = cf.seed) /\ (~cf.mra => lim = NumLevels(c)) /\ A_Start(t, c, s, lim) /\ UNCHANGED cf
  \/ \E t \in Trials : \E lim \in 1..NumLevels(prun[t].c + (IF prun[t].c = 0 THEN 1 ELSE 0)) :
        (~cf.mra => lim = 1) /\ A_Resume(t, lim) /\ UNCHANGED cf
  \* the tuning loop always polls all trials it believes running
  \/ (A_Fetch({t \in Trials : mode[t] = "running"}) /\ UNCHANGED cf)
  \/ \E t \in Trials : (A_Pause(t, nextLv[t] - 1) \/ A_Stop(t)) /\ UNCHANGED cf
  \/ (A_Sleep /\ UNCHANGED cf)
  \/ \E d \in cf.outs : owed = 0 /\ A_Outside(d) /\ UNCHANGED cf
=============================================================================
