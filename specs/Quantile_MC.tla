---------------------------- MODULE Quantile_MC ----------------------------
(* Pure-function obligations, evaluated by TLC at start-up as ASSUMEs:      *)
(*  Q1  the code's algorithm is defined (its sanity assertion holds)        *)
(*  Q2  the code's algorithm equals the numpy definition, both modes        *)
(* and a generator of (data, q, mode, expected) rows for the replay into    *)
(* the real Rung.quantile.                                                  *)
EXTENDS Quantile, FiniteSets, TLC, Json, SequencesExt

CONSTANTS MaxLen, Vals, Dens

BestFirst(s, isMin) == \A i \in 1..Len(s) - 1 : IF isMin THEN s[i] <= s[i+1] ELSE s[i] >= s[i+1]
Lists    == UNION { [1..n -> Vals] : n \in 2..MaxLen }
Quants   == { <<a, b>> : a \in 1..Dens, b \in 2..Dens } 
QuantsOK == { q \in Quants : q[1] < q[2] }

Cases == { <<s, q, m>> \in Lists \X QuantsOK \X BOOLEAN : BestFirst(s, m) }

ASSUME Q1 == \A c \in Cases : CodeSanity(c[1], c[2], c[3])
ASSUME Q2 == \A c \in Cases : REq(CodeQuantile(c[1], c[2], c[3]), Cutoff(c[1], c[2], c[3]))

\* behaviour generation: one row per case (printed once, from the single initial state)
VARIABLE x
Init == x = 0 /\ \A c \in Cases :
          PrintT(<<"@@GEN@@", ToJson([d |-> c[1], qn |-> c[2][1], qd |-> c[2][2], min |-> c[3],
                                      num |-> Cutoff(c[1], c[2], c[3])[1],
                                      den |-> Cutoff(c[1], c[2], c[3])[2]])>>)
Next == UNCHANGED x
Spec == Init /\ [][Next]_x
=============================================================================
