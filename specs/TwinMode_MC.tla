---------------------------- MODULE TwinMode_MC ----------------------------
(***************************************************************************)
(* C15 at design level: the "min" machine on a metric table and the "max"  *)
(* machine on the order-reversed table (v |-> Top - v) are stepped in lock *)
(* step by the same environment (same bracket drawn, same trial reports    *)
(* next).  AsyncHB's mode dependent operators -- q versus 1 - q, reversed  *)
(* best-first order, <= versus >= -- are exercised in both machines and    *)
(* TLC checks that they are bisimilar: same decision for every possible    *)
(* next report, same answer to every possible suggest, same trial states.  *)
(* Ties are broken identically in both machines (the code's sorted list    *)
(* keeps insertion order for equal keys in both modes).                    *)
(***************************************************************************)
EXTENDS Integers, Sequences, FiniteSets, TLC
CONSTANTS NT, LevelsC, MaxT, NBr, PerBr, Type, MRA, Ckpt, Vals, Top, MaxRun
VARIABLES a_cf, a_st, a_lastr, a_rung, a_br, a_ms, a_rf, a_cap, a_thr, a_nstart, a_flags, a_reps, a_reached, a_latest, a_cmpl, a_tie, a_pobs, a_ppend, a_lur, a_fresh,
          b_cf, b_st, b_lastr, b_rung, b_br, b_ms, b_rf, b_cap, b_thr, b_nstart, b_flags, b_reps, b_reached, b_latest, b_cmpl, b_tie, b_pobs, b_ppend, b_lur, b_fresh
avars == <<a_cf, a_st, a_lastr, a_rung, a_br, a_ms, a_rf, a_cap, a_thr, a_nstart, a_flags, a_reps, a_reached, a_latest, a_cmpl, a_tie, a_pobs, a_ppend, a_lur, a_fresh>>
bvars == <<b_cf, b_st, b_lastr, b_rung, b_br, b_ms, b_rf, b_cap, b_thr, b_nstart, b_flags, b_reps, b_reached, b_latest, b_cmpl, b_tie, b_pobs, b_ppend, b_lur, b_fresh>>
A == INSTANCE AsyncHB WITH
       cf <- a_cf,
       st <- a_st,
       lastr <- a_lastr,
       rung <- a_rung,
       br <- a_br,
       ms <- a_ms,
       rf <- a_rf,
       cap <- a_cap,
       thr <- a_thr,
       nstart <- a_nstart,
       flags <- a_flags,
       reps <- a_reps,
       reached <- a_reached,
       latest <- a_latest,
       cmpl <- a_cmpl,
       tie <- a_tie,
       pobs <- a_pobs,
       ppend <- a_ppend,
       lur <- a_lur,
       fresh <- a_fresh
B == INSTANCE AsyncHB WITH
       cf <- b_cf,
       st <- b_st,
       lastr <- b_lastr,
       rung <- b_rung,
       br <- b_br,
       ms <- b_ms,
       rf <- b_rf,
       cap <- b_cap,
       thr <- b_thr,
       nstart <- b_nstart,
       flags <- b_flags,
       reps <- b_reps,
       reached <- b_reached,
       latest <- b_latest,
       cmpl <- b_cmpl,
       tie <- b_tie,
       pobs <- b_pobs,
       ppend <- b_ppend,
       lur <- b_lur,
       fresh <- b_fresh
INSTANCE SequencesExt
Levels == SetToSortSeq(LevelsC, LAMBDA x, y : x < y)
PashaCap0 == Levels[IF Len(Levels) = 1 THEN 1 ELSE IF Len(Levels) - 1 < 2 THEN Len(Levels) - 1 ELSE 2]
Conf(ismin) == [levels |-> Levels, maxt |-> MaxT, nbr |-> NBr, perbr |-> PerBr, type |-> Type, min |-> ismin, mra |-> MRA,
                ckpt |-> Ckpt, nthr |-> 0, vals |-> Vals, costs |-> {0}, faults |-> FALSE,
                cap0 |-> IF Type = "pasha" THEN PashaCap0 ELSE MaxT, sd |-> "none", myopic |-> FALSE, completes |-> FALSE]
Flip(v) == Top - v
Init == A!InitCommon(Conf(TRUE)) /\ B!InitCommon(Conf(FALSE))

Ids(S) == {e.t : e \in S}
\* the same environment step in both machines; the outcome is forced to be the same, which is sound because the
\* invariants below (checked in every reachable state) say that both machines offer the same outcomes
Next ==
  \/ \E b \in 0..(NBr - 1) : A!A_Suggest(b) /\ B!A_Suggest(b) /\ a_st' = b_st' /\ a_ms' = b_ms'
  \/ \E t \in 0..(NT - 1), v \in Vals : A!A_Report(t, v, 0) /\ B!A_Report(t, Flip(v), 0) /\ a_cap' = b_cap'
Spec == Init /\ [][Next]_<<avars, bvars>>
Workers == Cardinality({t \in 0..(NT - 1) : a_st[t] = "running"}) <= MaxRun

SameState == a_st = b_st /\ a_ms = b_ms /\ a_rf = b_rf /\ a_br = b_br /\ a_lastr = b_lastr /\ a_cap = b_cap /\ a_nstart = b_nstart
SameRungs == \A k \in DOMAIN a_rung : {<<e.t, e.p>> : e \in a_rung[k]} = {<<e.t, e.p>> : e \in b_rung[k]}
SameSuggest == \A b \in 0..(NBr - 1) :
                 /\ A!CodeSuggest(b) = B!CodeSuggest(b)
                 /\ (A!IsPromotion /\ A!CodeSuggest(b)[1] = "promote") =>
                       Ids(A!CodePromotable(A!SysOf(b), A!CodeSuggest(b)[2])) = Ids(B!CodePromotable(B!SysOf(b), B!CodeSuggest(b)[2]))
SameDecision == \A t \in 0..(NT - 1) : a_st[t] = "running" /\ a_lastr[t] < MaxT =>
                  \A v \in Vals :
                    (IF A!IsPromotion THEN A!CodePromoDecision(t, a_lastr[t] + 1) ELSE A!CodeStopDecision(t, a_lastr[t] + 1, v))
                    = (IF B!IsPromotion THEN B!CodePromoDecision(t, b_lastr[t] + 1) ELSE B!CodeStopDecision(t, b_lastr[t] + 1, Flip(v)))
BothClean == a_flags = {} /\ b_flags = {}
=============================================================================
