SPECIFICATION TSpec
CONSTANTS
  NT = 16
CONSTRAINT Report
CHECK_DEADLOCK FALSE
