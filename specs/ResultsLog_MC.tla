---------------------------- MODULE ResultsLog_MC ----------------------------
(* Design level: a transcription of MetricsStatistics.add / print_best_metric_ *)
(* found (the code's running min/max with Python's comparison semantics) is    *)
(* fed every sequence of handed results over {0,1,2,NaN}; the final report is  *)
(* judged by the monitor of ResultsLog.                                        *)
EXTENDS ResultsLog
CONSTANTS IsMin, Vals, MaxLen, WithNaN
AllVals == Vals \cup (IF WithNaN THEN {NaN} ELSE {})
Inf == 1000
\* min(prev, cur) in Python returns prev unless cur < prev; comparisons with NaN are false
PyMin(prev, cur) == IF cur # NaN /\ prev # NaN /\ cur < prev THEN cur ELSE prev
PyMax(prev, cur) == IF cur # NaN /\ prev # NaN /\ cur > prev THEN cur ELSE prev
RunMin(s) == LET F[i \in 0..Len(s)] == IF i = 0 THEN Inf ELSE PyMin(F[i-1], s[i][2]) IN F[Len(s)]
RunMax(s) == LET F[i \in 0..Len(s)] == IF i = 0 THEN -Inf ELSE PyMax(F[i-1], s[i][2]) IN F[Len(s)]
CodeStat(s) == <<Len(s), RunMin(s), RunMax(s), SumSeq(s), Num(s) # {}>>
\* print_best_metric_found: sorted by per-trial min (or -max); first entry
CodeBest == LET seen == {t \in Trials : Of(handed, t) # <<>>}
                key(t) == IF cf.min THEN RunMin(Of(handed, t)) ELSE -RunMax(Of(handed, t))
            IN  IF seen = {} THEN -1 ELSE CHOOSE t \in seen : \A u \in seen : key(t) <= key(u)
Init == InitCommon([min |-> IsMin, min2 |-> ~IsMin])
Next ==
  \/ /\ Len(handed) < MaxLen
     /\ \E t \in Trials, v \in AllVals : EvHanded(t, v)
  \/ /\ Len(handed) >= 1 /\ flags = {}
     /\ EvFinal(delivered, delivered, TRUE, CodeBest, -2, [i \in 1..NT |-> CodeStat(Of(handed, i - 1))], CodeStat(handed))
Spec == Init /\ [][Next]_vars
=============================================================================
