---------------------------- MODULE TunerLoop_Gen ----------------------------
(* Behaviour generation: TunerLoop_MC plus a history variable that records  *)
(* the environment's and the scheduler's choices.  Complete behaviours      *)
(* (pc' = "done") are printed as JSON; the driver compiles them to an       *)
(* environment script and pushes them through the real Tuner.run.           *)
(*   - "tlc -simulate": random walks of the specification                   *)
(*   - exhaustive with VIEW (hist hidden): one behaviour per transition     *)
(*     into the final state, BFS-shortest                                   *)
EXTENDS TunerLoop_MC, Json

VARIABLE hist
CONSTANT MinLen
gvars == <<vars, hist>>

H(r) == hist' = Append(hist, r)

GInit == Init /\ hist = <<>>
GNext ==
  \/ \E b \in BOOLEAN : T_StopCond /\ stopReached' = b /\ H([a |-> "T_StopCond", b |-> b])
  \/ T_LoopCheck /\ H([a |-> "T_LoopCheck"])
  \/ T_Fetch /\ H([a |-> "T_Fetch"])
  \/ \E t \in Trials, d \in Decisions : T_Result(t, d) /\ H([a |-> "T_Result", t |-> t, d |-> d])
  \/ \E t \in Trials, s \in Trials : T_Exploit(t, s) /\ H([a |-> "T_Exploit", t |-> t, s |-> s])
  \/ T_Stop /\ H([a |-> "T_Stop"])
  \/ T_StopDel /\ H([a |-> "T_StopDel"])
  \/ T_Pause /\ H([a |-> "T_Pause"])
  \/ T_Remove /\ H([a |-> "T_Remove"])
  \/ T_ResultsDone /\ H([a |-> "T_ResultsDone"])
  \/ T_Status /\ H([a |-> "T_Status"])
  \/ T_CbComplete /\ H([a |-> "T_CbComplete"])
  \/ T_StatusUpdate /\ H([a |-> "T_StatusUpdate"])
  \/ T_Sched /\ H([a |-> "T_Sched"])
  \/ T_Busy /\ H([a |-> "T_Busy"])
  \/ T_SuggestNew /\ H([a |-> "T_SuggestNew", from |-> IF stack = <<>> THEN NoTrial ELSE stack[Len(stack)]])
  \/ T_Add /\ H([a |-> "T_Add"])
  \/ \E t \in Trials : T_SuggestResume(t) /\ H([a |-> "T_SuggestResume", t |-> t])
  \/ T_SuggestNone /\ H([a |-> "T_SuggestNone"])
  \/ T_SuggestDone /\ H([a |-> "T_SuggestDone"])
  \/ \E t \in Trials : T_SpecDelete(t) /\ H([a |-> "T_SpecDelete", t |-> t])
  \/ T_LoopEnd /\ H([a |-> "T_LoopEnd"])
  \/ T_StopAll /\ H([a |-> "T_StopAll"])
  \/ T_End /\ H([a |-> "T_End"])
  \/ /\ ObsPoint /\ UNCHANGED <<cf, progV>>
     /\ \E t \in Trials :
          \/ W_Emit(t) /\ H([a |-> "W_Emit", t |-> t])
          \/ W_Exit(t) /\ H([a |-> "W_Exit", t |-> t])
          \/ W_Fail(t) /\ H([a |-> "W_Fail", t |-> t])
          \/ W_ExtStop(t) /\ H([a |-> "W_ExtStop", t |-> t])
          \/ W_Gone(t) /\ H([a |-> "W_Gone", t |-> t])
GSpec == GInit /\ [][GNext]_gvars

Emit == (pc' = "done") => PrintT(<<"@@GEN@@", ToJson(hist')>>)
EmitSampled == Emit
View == vars
\* keep random walks going: the scripted criterion may trip only after MinLen steps
Late == (pc \in {"stopcond0", "stopcond"} /\ stopReached') => Len(hist) >= MinLen
=============================================================================
