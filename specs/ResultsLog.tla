----------------------------- MODULE ResultsLog -----------------------------
(***************************************************************************)
(* The results log, the running statistics and the reported best           *)
(* configuration (C17): syne_tune/results_callback.py (StoreResultsCallback)*)
(* tuning_status.py (MetricsStatistics, TuningStatus,                      *)
(* print_best_metric_found), tuner.py (best_config),                       *)
(* experiments/experiment_result.py (best_config of a loaded experiment).  *)
(*                                                                         *)
(* Metric values are tokens: integers >= 0, NaN (-1).  IEEE / Python        *)
(* semantics: every comparison with NaN is false, NaN poisons a sum.        *)
(* A run is: Handed(t, v)* interleaved with Deliver(t, v, d, c)*, then Final.*)
(***************************************************************************)
EXTENDS Integers, Sequences, FiniteSets, TLC

CONSTANT NT
Trials == 0 .. (NT - 1)
NaN == -1

VARIABLES cf,        \* [min : BOOLEAN, min2 : BOOLEAN]
          handed,    \* Seq of <<t, v>>: every result the back-end handed to the tuning loop, in order
          delivered, \* Seq of <<t, v, d, c>>: results passed to the scheduler with its decision, in order; c = token of the
                     \* categorical value in the trial's configuration at that time (text such as "None", "NA", "l2")
          flags
vars == <<cf, handed, delivered, flags>>
Flag(c, f) == IF c THEN {f} ELSE {}

Num(s)     == {i \in 1..Len(s) : s[i][2] # NaN}
ValsOf(s)  == {s[i][2] : i \in Num(s)}
MinSet(S)  == CHOOSE x \in S : \A y \in S : x <= y
MaxSet(S)  == CHOOSE x \in S : \A y \in S : x >= y
SumSeq(s)  == LET F[i \in 0..Len(s)] == IF i = 0 THEN 0 ELSE F[i-1] + s[i][2] IN F[Len(s)]
Of(s, t)   == SelectSeq(s, LAMBDA e : e[1] = t)
Opt(S)     == IF cf.min THEN MinSet(S) ELSE MaxSet(S)

EvHanded(t, v) ==
  /\ handed' = Append(handed, <<t, v>>) /\ UNCHANGED <<cf, delivered, flags>>
EvDeliver(t, v, d, c) ==
  /\ delivered' = Append(delivered, <<t, v, d, c>>)
  /\ flags' = flags \cup Flag(~\E i \in 1..Len(handed) : handed[i] = <<t, v>>, "delivered_not_handed")
  /\ UNCHANGED <<cf, handed>>

\* stats = [t |-> <<count, min, max, sum, hasmin>>] read from TuningStatus (hasmin = a min/max entry exists)
StatOK(s, st) ==
  /\ st[1] = Len(s)
  /\ IF Num(s) = {} THEN TRUE      \* no numeric value: nothing to compare (the statistics hold no finite entry)
     ELSE /\ st[5] /\ st[2] = MinSet(ValsOf(s)) /\ st[3] = MaxSet(ValsOf(s))
          /\ (Num(s) = 1..Len(s) => st[4] = SumSeq(s))        \* NaN poisons the sum: compared only without NaN
\* rows = Seq of <<t, v, d, c>> of the stored table; rowsback = the same read back from disk by the library's reader
\* (load_experiment); c = -1 for a value that is none of the categorical values
\* bestT = trial of Tuner.best_config() (-1 if none); bestL = trial of the loaded experiment's best_config (-1 if none)
EvFinal(rows, rowsback, cfgok, bestT, bestL, pstats, ostats) ==
  /\ flags' = flags
       \cup Flag(rows # delivered, "rows_differ_from_delivered")                          \* one row per delivered result, in order
       \cup Flag(rowsback # rows, "table_changed_on_disk")
       \cup Flag(~cfgok, "row_config_or_stamp_wrong")
       \cup Flag(Num(handed) # {} /\ (bestT \notin Trials \/ ~\E i \in Num(handed) : handed[i] = <<bestT, Opt(ValsOf(handed))>>),
                 "tuner_best_not_optimal")
       \cup Flag(Num(rows) # {} /\ bestL # -2 /\ (bestL \notin Trials \/ ~\E i \in Num(rows) : rows[i][1] = bestL /\ rows[i][2] = Opt(ValsOf(rows))),
                 "loaded_best_not_optimal")
       \cup Flag(\E t \in Trials : Of(handed, t) # <<>> /\ ~StatOK(Of(handed, t), pstats[t + 1]), "trial_statistics")
       \cup Flag(~StatOK(handed, ostats), "overall_statistics")
  /\ UNCHANGED <<cf, handed, delivered>>
\* Several metrics with different modes: a second metric m2 = K - m is reported along (so its order is the reverse of
\* m's), the scheduler's mode is the list <<mode of m, mode of m2>> with cf.min2 = (mode of m2 is "min").
\*   t2 = trial of Tuner.best_config(metric = 1), l2 = trial of the loaded experiment's best_config(metric = "m2"),
\*   p  = trial named in the summary Tuner.run prints at the end (first metric, with ITS mode);  -2 = not applicable
Opt2(S) == IF cf.min2 THEN MaxSet(S) ELSE MinSet(S)
EvBestMore(rows, t2, l2, p) ==
  /\ flags' = flags
       \cup Flag(Num(handed) # {} /\ t2 # -2 /\ (t2 \notin Trials \/ ~\E i \in Num(handed) : handed[i] = <<t2, Opt2(ValsOf(handed))>>),
                 "tuner_best_not_optimal")
       \cup Flag(Num(rows) # {} /\ l2 # -2 /\ (l2 \notin Trials \/ ~\E i \in Num(rows) : rows[i][1] = l2 /\ rows[i][2] = Opt2(ValsOf(rows))),
                 "loaded_best_not_optimal")
       \cup Flag(Num(handed) # {} /\ p # -2 /\ (p \notin Trials \/ ~\E i \in Num(handed) : handed[i] = <<p, Opt(ValsOf(handed))>>),
                 "printed_best_not_optimal")
  /\ UNCHANGED <<cf, handed, delivered>>
EvCrash == flags' = flags \cup {"raised"} /\ UNCHANGED <<cf, handed, delivered>>

InitCommon(c) == cf = c /\ handed = <<>> /\ delivered = <<>> /\ flags = {}
NoFlag(f) == f \notin flags
RowPerDelivered == NoFlag("rows_differ_from_delivered") /\ NoFlag("delivered_not_handed")
ReadBackEqual   == NoFlag("table_changed_on_disk") /\ NoFlag("row_config_or_stamp_wrong")
BestIsArgOpt    == NoFlag("tuner_best_not_optimal") /\ NoFlag("loaded_best_not_optimal") /\ NoFlag("printed_best_not_optimal")
StatsMatch      == NoFlag("trial_statistics") /\ NoFlag("overall_statistics")
=============================================================================
