SPECIFICATION TSpec
CONSTANTS
  NT = 12
CONSTRAINT Report
CHECK_DEADLOCK FALSE
