----------------------------- MODULE AsyncHB_Gen -----------------------------
(* Behaviour generation for AsyncHB: the environment schedule (who is asked  *)
(* for work when, who reports what next, who crashes) with the model's own   *)
(* choices; the driver replays the schedule into a real HyperbandScheduler.  *)
EXTENDS AsyncHB_MC, Json
VARIABLE hist
gvars == <<vars, hist>>
H(r) == hist' = Append(hist, r)
GInit == Init /\ hist = <<>>
GNext ==
  \/ \E b \in 0..(cf.nbr - 1) : A_Suggest(b) /\ H([a |-> "Suggest", b |-> b])
  \/ \E t \in Trials, v \in cf.vals, c \in cf.costs : A_Report(t, v, c) /\ H([a |-> "Report", t |-> t, v |-> v, c |-> c])
  \/ \E t \in Trials : cf.faults /\ A_Error(t) /\ H([a |-> "Error", t |-> t])
  \/ \E t \in Trials : cf.completes /\ A_Complete(t) /\ H([a |-> "Complete", t |-> t])
GSpec == GInit /\ [][GNext]_gvars
\* print a behaviour when it cannot be extended or is long enough
CONSTANT GenLen
Emit == (Len(hist') = GenLen \/ (Len(hist') >= 6 /\ Len(hist') % 3 = 0)) => PrintT(<<"@@GEN@@", ToJson(hist')>>)
Bound == Len(hist) <= GenLen
View == vars
=============================================================================
