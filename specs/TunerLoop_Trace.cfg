SPECIFICATION TSpec
CONSTANTS
  NT = 40
CONSTRAINT Report
CHECK_DEADLOCK FALSE
