----------------------------- MODULE SyncHB_Gen -----------------------------
EXTENDS SyncHB_MC, Json
VARIABLE hist
CONSTANT GenLen
gvars == <<vars, hist>>
H(r) == hist' = Append(hist, r)
GInit == Init /\ hist = <<>>
Busy == primary <= Len(B) /\ BracketDone(primary)
GNext ==
  \/ (~Busy /\ A_Suggest /\ primary' = primary /\ H([a |-> "Suggest"]))
  \/ \E t \in Trials, v \in cf.vals : ~Busy /\ A_Report(t, v) /\ H([a |-> "Report", t |-> t, v |-> v])
  \/ \E t \in Trials : cf.faults /\ ~Busy /\ A_Fail(t) /\ H([a |-> "Fail", t |-> t])
  \/ (A_Advance /\ UNCHANGED hist)
Emit == (Len(hist') > Len(hist) /\ (Len(hist') = GenLen \/ (Len(hist') >= 6 /\ Len(hist') % 4 = 0))) => PrintT(<<"@@GEN@@", ToJson(hist')>>)
Bound == Len(hist) <= GenLen
View == vars
=============================================================================
