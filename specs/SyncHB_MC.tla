----------------------------- MODULE SyncHB_MC -----------------------------
EXTENDS SyncHB
CONSTANTS SysName, IsMin, MRA, Vals, Faults, MaxRun, MaxFaults, DE, PR,
          WithNaN     \* trials may report "not a number" (the value NaN) without failing
\* rung systems: sequences of brackets, each a sequence of <<size, level>> (cfg files cannot hold sequences)
SysTable ==
  [ sh31   |-> << << <<3, 1>>, <<1, 3>> >> >>,                                         \* one bracket, successive halving
    hb31   |-> << << <<3, 1>>, <<1, 3>> >>, << <<2, 3>> >> >>,                         \* geometric(1, 3, 3)
    hb421  |-> << << <<4, 1>>, <<2, 2>>, <<1, 4>> >>, << <<3, 2>>, <<1, 4>> >>, << <<3, 4>> >> >>,   \* geometric(1, 4, 2)
    cust   |-> << << <<3, 1>>, <<2, 2>>, <<1, 3>> >>, << <<2, 2>>, <<1, 3>> >> >>,     \* custom sizes
    sh22   |-> << << <<2, 1>>, <<1, 2>> >> >>,
    \* DEHB: the rung systems of the later brackets are suffixes of the first bracket's
    de31   |-> << << <<3, 1>>, <<1, 3>> >>, << <<1, 3>> >> >>,
    de321  |-> << << <<3, 1>>, <<2, 2>>, <<1, 4>> >>, << <<2, 2>>, <<1, 4>> >>, << <<1, 4>> >> >>,
    de31one |-> << << <<3, 1>>, <<1, 3>> >> >>,
    \* fewer brackets per iteration than rung levels (num_brackets_per_iteration = 1, 2 of 3)
    de321one |-> << << <<3, 1>>, <<2, 2>>, <<1, 4>> >> >>,
    de321two |-> << << <<3, 1>>, <<2, 2>>, <<1, 4>> >>, << <<2, 2>>, <<1, 4>> >> >> ]
Conf == [sys |-> SysTable[SysName], min |-> IsMin, mra |-> MRA, vals |-> Vals \cup (IF WithNaN THEN {NaN} ELSE {}), faults |-> Faults, de |-> DE, pr |-> PR]
Init == InitCommon(Conf)
Spec == Init /\ [][Next]_vars
Workers == /\ Cardinality({t \in Trials : st[t] = "running"}) <= MaxRun
           /\ Cardinality({t \in Trials : st[t] = "failed"}) <= MaxFaults
\* NextJobNeverBlocks at design level: whenever fewer than MaxRun jobs run and trial ids are left,
\* a job can be handed out (possibly after the internal primary-advance step)
SuggestEnabled == (nstart < NT /\ Cardinality({t \in Trials : st[t] = "running"}) < MaxRun)
                     => (ENABLED A_Suggest \/ ENABLED A_Advance)
W_NoSecondBracket == Len(B) < 2
W_NoPromotion == \A t \in Trials : ~(st[t] = "running" /\ pslot[t] # <<>> /\ pslot[t][2] > 1)
W_NoFailedPromoted == \A t \in Trials : ~(st[t] = "failed" /\ \E b \in 1..Len(B) : \E i \in 2..NumRungs(b) : t \in TrialsIn(b, i))
=============================================================================
