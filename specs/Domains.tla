------------------------------- MODULE Domains -------------------------------
(***************************************************************************)
(* Hyperparameter domains and their encodings (C07, restricted claim):     *)
(*   syne_tune/config_space.py (sample, cast, is_valid, JSON form),        *)
(*   searchers/utils/hp_ranges_impl.py (to_ndarray / from_ndarray,         *)
(*   active ranges), hp_ranges_factory.py.                                 *)
(* A value is logged as the INDEX into the value list that the domain's    *)
(* constructor arguments define (integers l..u, the listed categories, the *)
(* size equally spaced values), -1 if it is not in that list; for          *)
(* continuous domains as exact comparison bits against the bounds.         *)
(***************************************************************************)
EXTENDS Integers, Sequences, FiniteSets, TLC

Discrete == {"randint", "lograndint", "qrandint", "choice", "ordinal", "ordinal_nn", "ordinal_nnlog", "finrange",
             "finrange_int", "logfinrange", "logfinrange_int"}
Continuous == {"uniform", "loguniform", "reverseloguniform", "quniform"}
Kinds == Discrete \cup Continuous

\* number of members of a discrete domain d = [kind, l, u, n, q]
Size(d) == CASE d.kind \in {"randint", "lograndint"} -> d.u - d.l + 1
             [] d.kind = "qrandint" -> d.u - d.l + 1      \* membership = the integer bounds (the quantum concerns sampling only)
             [] OTHER -> d.n
\* v = [idx, typeok, lo_ok, hi_ok]  (idx: discrete, lo_ok / hi_ok: continuous)
Member(d, v) == /\ v.typeok
                /\ IF d.kind \in Discrete THEN v.idx >= 0 /\ v.idx < Size(d) ELSE v.lo_ok /\ v.hi_ok
\* inside the active sub-range [alo, ahi] (indices) when one is set
InActive(d, v, alo, ahi) == d.kind \in Discrete => (v.idx >= alo /\ v.idx <= ahi)

\* one logged call of the implementation -> set of violated clauses
Verdict(c) ==
  CASE c.f = "sample"    -> IF Member(c.d, c.v) THEN {} ELSE {"sample_not_member"}
    [] c.f = "cast"      -> IF Member(c.d, c.v) THEN {} ELSE {"cast_not_member"}
    [] c.f = "decode"    -> (IF Member(c.d, c.v) THEN {} ELSE {"decoded_not_member"})
                            \cup (IF c.hasactive /\ ~InActive(c.d, c.v, c.alo, c.ahi) THEN {"decoded_outside_active_range"} ELSE {})
    [] c.f = "encode"    -> (IF c.len = c.advertised THEN {} ELSE {"vector_length"})
                            \cup (IF c.incube THEN {} ELSE {"vector_outside_cube"})
                            \cup (IF c.d.kind \in Discrete
                                    THEN (IF c.back.idx = c.v.idx /\ c.back.typeok THEN {} ELSE {"roundtrip_changed_value"})
                                    ELSE (IF c.relok THEN {} ELSE {"roundtrip_beyond_1e-7"}))
    [] c.f = "json"      -> (IF c.equal THEN {} ELSE {"json_space_not_equal"})
                            \cup (IF c.sameenc THEN {} ELSE {"json_space_encodes_differently"})
    [] c.f = "raised"    -> {"raised"}
=============================================================================
