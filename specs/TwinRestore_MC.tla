--------------------------- MODULE TwinRestore_MC ---------------------------
(* C16 at design level: two copies of the abstract searcher state stepped in  *)
(* lock step by the same environment; the second copy additionally takes      *)
(* Restore steps (snapshot + re-creation), which must be a stuttering step on *)
(* the declared abstract state: queue of initial points, exclusion set,       *)
(* exhaustion flag, suggestion counter.  SameContinuation: whatever the       *)
(* original may answer next, the restored twin may answer, and vice versa.    *)
EXTENDS Integers, Sequences, FiniteSets, TLC
CONSTANTS Space, Init2E
VARIABLES qa, sa, qb, sb, snap, n
vars == <<qa, sa, qb, sb, snap, n>>
Init == qa = Init2E /\ qb = Init2E /\ sa = {} /\ sb = {} /\ snap = <<>> /\ n = 0
\* the answers a legal searcher may give in state (q, s)
Answers(q, s) == IF q # <<>> THEN {Head(q)} ELSE IF Space \ s = {} THEN {0} ELSE Space \ s
Suggest == \E c \in Answers(qa, sa) :
             /\ c \in Answers(qb, sb)
             /\ qa' = (IF qa # <<>> THEN Tail(qa) ELSE qa) /\ qb' = (IF qb # <<>> THEN Tail(qb) ELSE qb)
             /\ sa' = (IF c = 0 THEN sa ELSE sa \cup {c}) /\ sb' = (IF c = 0 THEN sb ELSE sb \cup {c})
             /\ n' = n + 1 /\ UNCHANGED snap
\* snapshot = get_state(); restore = clone_from_state(snapshot): identity on the abstract state
TakeSnapshot == snap' = <<qb, sb>> /\ UNCHANGED <<qa, sa, qb, sb, n>>
Restore == snap # <<>> /\ snap = <<qb, sb>> /\ qb' = snap[1] /\ sb' = snap[2] /\ UNCHANGED <<qa, sa, snap, n>>
P2E == <<2, 4>>
Next == (n < 6 /\ Suggest) \/ TakeSnapshot \/ Restore
Spec == Init /\ [][Next]_vars
SameContinuation == Answers(qa, sa) = Answers(qb, sb)
=============================================================================
