---------------------------- MODULE AsyncHB_Trace ----------------------------
(* Batch validation of traces recorded from real HyperbandScheduler objects. *)
EXTENDS AsyncHB, Json, IOUtils, TLCExt
Traces == ndJsonDeserialize(IOEnv.TRACE_FILE)
VARIABLES tid, l
tvars == <<vars, tid, l>>

\* JSON has no sets: vals / costs arrive as sequences
Conf(c) == [c EXCEPT !.vals = ToSet(c.vals), !.costs = ToSet(c.costs)]
TInit == \E i \in 1..Len(Traces) : tid = i /\ l = 1 /\ InitCommon(Conf(Traces[i].conf))
TStep(e) ==
  CASE e.a = "Start"   -> EvStart(e.t, e.b, e.mval)
    [] e.a = "Promote" -> EvPromote(e.t, e.from, e.to, e.b, e.mval)
    [] e.a = "Report"  -> EvReport(e.t, e.r, e.v, e.c, e.d, e.cap)
    [] e.a = "Error"   -> EvError(e.t)
    [] e.a = "Complete" -> EvComplete(e.t)
    [] e.a = "RS"      -> EvRungSizes(e.sz)
    [] e.a = "Crash"   -> EvCrash
    [] e.a = "Diverge" -> EvDiverge
    [] e.a = "SS"      -> EvSearcherState(e.obs, e.pend)
TNext == /\ l <= Len(Traces[tid].ev) /\ TStep(Traces[tid].ev[l])
         /\ l' = l + 1 /\ tid' = tid
         /\ IF Traces[tid].ev[l].a = "SS" THEN TRUE
            ELSE /\ UNCHANGED <<pobs, ppend, lur>>
                 /\ fresh' = FALSE       \* judged only right after the searcher state was read back
\* C14 state predicates, reported as flags as well
StateFlags == (IF ObsLevelsMatchPolicy THEN {} ELSE {"obs_levels"})
              \cup (IF ObsLevelsMatchPolicy /\ ~ObsLevelsStrict THEN {"obs_levels_completion"} ELSE {})
              \cup (IF PendingOnlyLive THEN {} ELSE {"pending_not_running"})
              \cup (IF PendingNotObserved THEN {} ELSE {"pending_observed"})
TSpec == TInit /\ [][TNext]_tvars
Report ==
  /\ PrintT(<<"@@P@@", tid, l>>)
  /\ (StateFlags # {}) => PrintT(<<"@@SFL@@", tid, l, StateFlags>>)
  /\ (l = Len(Traces[tid].ev) + 1) => PrintT(<<"@@FLG@@", tid, flags>>)
=============================================================================
