--------------------------- MODULE ReportChannel_Gen ---------------------------
EXTENDS ReportChannel_MC, Json
VARIABLE hist
GInit == MCInit /\ hist = <<>>
GNext ==
  /\ nchunks < MaxChunks /\ nchunks' = nchunks + 1
  /\ \/ \E p \in Strings(PayTok, MaxPay) : Report(p) /\ hist' = Append(hist, [kind |-> "report", tok |-> p])
     \/ \E s \in Strings(NoiseTok, MaxNoise) : s # <<>> /\ Noise(s) /\ hist' = Append(hist, [kind |-> "noise", tok |-> s])
     \/ (Rejected /\ hist' = Append(hist, [kind |-> "bad", tok |-> <<>>]))
Emit == (nchunks' = MaxChunks) => PrintT(<<"@@GEN@@", ToJson(hist')>>)
=============================================================================
