------------------------------ MODULE Searcher ------------------------------
(***************************************************************************)
(* What a scheduler may suggest (C06), and what a restored twin must do    *)
(* (C16).  scheduler.suggest -> searcher.get_config:                        *)
(*   syne_tune/optimizer/schedulers/searchers/searcher.py (initial points, *)
(*   mid-point imputation, de-duplication), searcher_base.py (exclusion    *)
(*   list), random_grid_searcher.py (grid cursor), fifo.py / scheduler.py  *)
(*   (_postprocess_config).                                                *)
(*                                                                         *)
(* A configuration is a sequence of value INDICES, one per hyperparameter  *)
(* (the driver maps values to indices of the domain's value list, -1 for   *)
(* "not a listed value").  Domains: [kind, l, u, n]                        *)
(*   "int"  integers l..u              mid-point = round_half_even((l+u)/2) *)
(*   "cat"  n categories               mid-point = first                   *)
(*   "ord"  n ordered categories       mid-point = entry n \div 2          *)
(*   "fin"  n equally spaced values    mid-point = nearest to (l+u)/2      *)
(*   "logint" integers l..u, log scale mid-point = round(sqrt(l u))         *)
(***************************************************************************)
EXTENDS Integers, Sequences, FiniteSets, TLC, SequencesExt

VARIABLES
  cf,        \* [doms : Seq([kind, l, u, n]), p2e : Seq(Seq(Int)), norepeat, finite, nofail]
             \* nofail: the searcher promises not to suggest the configuration of a FAILED trial again (random search keeps
             \* the configurations of failed trials on its exclusion list even when duplicates are allowed)
  queue,     \* imputed, de-duplicated initial configurations still to be suggested
  suggested, \* set of configurations suggested so far
  nsug,      \* number of suggestions
  done,      \* the searcher answered "nothing left"
  byTrial,   \* set of <<trial, configuration>>: which configuration each trial was started with
  failedc,   \* configurations of trials that failed
  flags

vars == <<cf, queue, suggested, nsug, done, byTrial, failedc, flags>>
Flag(c, f) == IF c THEN {f} ELSE {}

\* "cont": a continuous domain; the driver logs index 0 for a value inside the bounds (exact comparison), -1 otherwise
Size(d) == IF d.kind \in {"int", "logint"} THEN d.u - d.l + 1 ELSE IF d.kind = "cont" THEN 1 ELSE d.n
\* geometric mid-point of a log-scaled integer range, rounded to the nearest integer:
\* m with (2m - 1)^2 <= 4 l u < (2m + 1)^2   (4 l u is even, an odd square is odd: no rounding tie)
GeoMid(l, u) == CHOOSE m \in l..u : (2 * m - 1) * (2 * m - 1) <= 4 * l * u /\ 4 * l * u < (2 * m + 1) * (2 * m + 1)
\* round half to even of a / 2
HalfEven(a) == IF a % 2 = 0 THEN a \div 2 ELSE (IF ((a - 1) \div 2) % 2 = 0 THEN (a - 1) \div 2 ELSE (a + 1) \div 2)
MidIndex(d) ==
  CASE d.kind = "int" -> HalfEven(d.l + d.u) - d.l
    [] d.kind = "logint" -> GeoMid(d.l, d.u) - d.l
    [] d.kind = "cat" -> 0
    [] d.kind = "ord" -> d.n \div 2
    [] d.kind = "fin" -> HalfEven(d.n - 1)
    [] d.kind = "cont" -> 0
Impute(p) == [i \in 1..Len(cf.doms) |-> IF p[i] = -1 THEN MidIndex(cf.doms[i]) ELSE p[i]]
Dedup(s) == LET F[i \in 0..Len(s)] == IF i = 0 THEN <<>>
                                       ELSE IF \E j \in 1..Len(F[i-1]) : F[i-1][j] = s[i] THEN F[i-1] ELSE Append(F[i-1], s[i])
            IN F[Len(s)]
InitialQueue(c) == LET imp == [k \in 1..Len(c.p2e) |-> [i \in 1..Len(c.doms) |->
                                   IF c.p2e[k][i] = -1 THEN
                                     (LET d == c.doms[i] IN
                                      CASE d.kind = "int" -> HalfEven(d.l + d.u) - d.l
                                        [] d.kind = "logint" -> GeoMid(d.l, d.u) - d.l
                                        [] d.kind = "cat" -> 0
                                        [] d.kind = "ord" -> d.n \div 2
                                        [] d.kind = "fin" -> HalfEven(d.n - 1)
                                        [] d.kind = "cont" -> 0)
                                   ELSE c.p2e[k][i]]]
                   IN Dedup(imp)
SpaceSize == LET F[i \in 0..Len(cf.doms)] == IF i = 0 THEN 1 ELSE F[i-1] * Size(cf.doms[i]) IN F[Len(cf.doms)]
Member(c) == Len(c) = Len(cf.doms) /\ \A i \in 1..Len(c) : c[i] >= 0 /\ c[i] < Size(cf.doms[i])

InitCommon(c) ==
  /\ cf = c /\ queue = InitialQueue(c) /\ suggested = {} /\ nsug = 0 /\ done = FALSE /\ flags = {}
  /\ byTrial = {} /\ failedc = {}

\* suggest() returned a NEW configuration c (sequence of indices) for trial t; bits computed by the driver:
\* keys = all keys of the space present, consts = constants unchanged, types = every value has the domain's type
\* clone = the new trial is started from the checkpoint of another trial (population-based training: the scheduler's
\* exploit step continues a member of the population under a new trial id; such a start is not drawn from the initial
\* configurations and does not consume one)
EvSuggest(t, c, keys, consts, types, clone) ==
  /\ flags' = flags
       \cup Flag(~keys, "missing_key") \cup Flag(~consts, "constant_changed") \cup Flag(~types, "wrong_type")
       \cup Flag(~Member(c), "outside_domain")
       \cup Flag(~clone /\ queue # <<>> /\ c # Head(queue), "initial_order")
       \cup Flag(cf.norepeat /\ c \in suggested, "repeat")
       \cup Flag(cf.nofail /\ c \in failedc, "failed_resuggested")                 \* C13
       \* (only where no-repeat is promised: PBT queues clones of known configurations although its random searcher is exhausted)
       \cup Flag(done /\ cf.norepeat, "suggest_after_nothing_left")
  /\ queue' = IF queue # <<>> /\ ~clone THEN Tail(queue) ELSE queue
  /\ suggested' = suggested \cup {c}
  /\ nsug' = nsug + 1
  /\ byTrial' = byTrial \cup {<<t, c>>}
  /\ UNCHANGED <<cf, done, failedc>>

\* suggest() returned None ("nothing left")
EvNone ==
  /\ flags' = flags \cup Flag((cf.norepeat /\ cf.finite /\ Cardinality(suggested) < SpaceSize) \/ queue # <<>>, "none_premature")
  /\ done' = TRUE
  /\ UNCHANGED <<cf, queue, suggested, nsug, byTrial, failedc>>

\* results and completions do not change what may be suggested (they are logged for the history)
EvOther == UNCHANGED vars
\* on_trial_error(t): the configuration of trial t is one of a failed trial from now on
EvFail(t) ==
  /\ failedc' = failedc \cup {p[2] : p \in {q \in byTrial : q[1] = t}}
  /\ UNCHANGED <<cf, queue, suggested, nsug, done, byTrial, flags>>

EvCrash == flags' = flags \cup {"scheduler_raised"} /\ UNCHANGED <<cf, queue, suggested, nsug, done, byTrial, failedc>>

\* C16: the restored twin answered differently from the uninterrupted one
EvDiverge == flags' = flags \cup {"twin_diverged"} /\ UNCHANGED <<cf, queue, suggested, nsug, done, byTrial, failedc>>

NoFlag(f) == f \notin flags
AllKeysTypedInDomain == NoFlag("missing_key") /\ NoFlag("wrong_type") /\ NoFlag("outside_domain")
ConstantsUnchanged   == NoFlag("constant_changed")
InitialFirstInOrder  == NoFlag("initial_order")
NoRepeat             == NoFlag("repeat")
FailedNotResuggested == NoFlag("failed_resuggested")
NoneOnlyWhenExhausted == NoFlag("none_premature") /\ NoFlag("suggest_after_nothing_left")
NeverRaises          == NoFlag("scheduler_raised")
SameContinuation     == NoFlag("twin_diverged")

----------------------------------------------------------------------------
(* PROGRAM: an abstract legal searcher (any member not forbidden); used to check the monitor's own
   consistency and to enumerate histories *)
AllConfigs == {c \in [1..Len(cf.doms) -> 0..8] : Member(c)}
A_Suggest ==
  IF queue # <<>> THEN EvSuggest(nsug, Head(queue), TRUE, TRUE, TRUE, FALSE)
  ELSE LET free == (IF cf.norepeat THEN AllConfigs \ suggested ELSE AllConfigs) \ (IF cf.nofail THEN failedc ELSE {}) IN
       IF free = {} THEN EvNone ELSE \E c \in free : EvSuggest(nsug, c, TRUE, TRUE, TRUE, FALSE)
\* a trial started so far may fail (design level: at most two failed configurations)
A_Fail == /\ Cardinality(failedc) < 2
          /\ \E t \in {p[1] : p \in byTrial} : (\A p \in byTrial : p[1] = t => p[2] \notin failedc) /\ EvFail(t)
Next == ~done /\ (A_Suggest \/ A_Fail)
=============================================================================
