---------------------------- MODULE Searcher_MC ----------------------------
EXTENDS Searcher
CONSTANTS SpaceName, P2EName, NoRep
Dom(k, l, u, n) == [kind |-> k, l |-> l, u |-> u, n |-> n]
Spaces == [ s1 |-> << Dom("int", 1, 4, 0), Dom("cat", 0, 0, 2) >>,
            s2 |-> << Dom("ord", 0, 0, 3), Dom("fin", 0, 0, 3) >>,
            s3 |-> << Dom("int", 2, 2, 0), Dom("cat", 0, 0, 3) >> ]
P2Es == [ none |-> << >>, default |-> << <<-1, -1>> >>,
          dup |-> << <<1, -1>>, <<-1, 1>>, <<1, -1>>, <<0, 0>> >>,
          partial |-> << <<-1, 1>>, <<0, -1>> >> ]
Conf == [doms |-> Spaces[SpaceName], p2e |-> P2Es[P2EName], norepeat |-> NoRep, finite |-> TRUE, nofail |-> TRUE]
Init == InitCommon(Conf)
Spec == Init /\ [][Next]_vars
Bound == nsug <= 10
\* Which trial was started with which configuration only matters through the set of configurations that can fail, and
\* that set is "suggested": states that differ in byTrial alone have the same futures as far as the flags go
MCView == <<cf, queue, suggested, nsug, done, failedc, flags>>
\* grid / random search on a finite space: every configuration exactly once before "nothing left"
ExactlyOnce == (done /\ NoRep) => Cardinality(suggested) = SpaceSize /\ nsug = SpaceSize
=============================================================================
