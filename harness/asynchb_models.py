"""Constant tables for AsyncHB model checking (single source of truth)."""
import os
import tempfile

from harness import tlc

INV_C03 = ["EnterRungOnce", "DecideOnlyAtOwnRungs", "StopAtMax", "ContinueIffQuantile", "IdsInSequence", "NeverRaises"]
INV_C04 = ["PauseExactlyAtMilestone", "NeverBeyondCap", "CapMonotone", "PromoteOnlyEligible", "PromoteBestOfHighest",
           "RunToNextRung", "NewTrialIffNoneEligible", "StopAtMax", "IdsInSequence", "NeverRaises"]
FLAG_INV = {
    "rung_contents": "EnterRungOnce", "decide_off_rung": "DecideOnlyAtOwnRungs", "pause_in_stopping": "DecideOnlyAtOwnRungs",
    "stop_at_max": "StopAtMax", "beyond_max_resource": "StopAtMax", "quantile_rule": "ContinueIffQuantile",
    "pause_at_milestone": "PauseExactlyAtMilestone", "decide_off_milestone": "PauseExactlyAtMilestone",
    "beyond_cap": "NeverBeyondCap", "cap_beyond_max": "NeverBeyondCap", "cap_without_pasha": "NeverBeyondCap",
    "cap_not_monotone": "CapMonotone", "cap_skips_level": "CapMonotone", "promote_ineligible": "PromoteOnlyEligible", "promoted_twice": "PromoteOnlyEligible",
    "promote_not_in_rung": "PromoteOnlyEligible", "promote_not_paused": "PromoteOnlyEligible",
    "not_highest_rung": "PromoteBestOfHighest", "wrong_next_milestone": "RunToNextRung",
    "wrong_max_resource_attr": "RunToNextRung", "wrong_first_milestone": "RunToNextRung",
    "start_while_eligible": "NewTrialIffNoneEligible", "trial_id_sequence": "IdsInSequence",
    "scheduler_raised": "NeverRaises",
}
INV_C14 = ["ObsLevelsMatchPolicy", "PendingOnlyLive", "PendingNotObserved", "ObsOnceAndTrue", "NeverRaises"]
FLAG_INV.update({"obs_levels": "ObsLevelsMatchPolicy", "obs_levels_completion": "ObsLevelsMatchPolicy", "pending_not_running": "PendingOnlyLive",
                 "pending_observed": "PendingNotObserved", "obs_duplicate": "ObsOnceAndTrue", "obs_value": "ObsOnceAndTrue",
                 "pending_duplicate": "ObsOnceAndTrue"})
FLAGS_C14 = sorted(f for f, i in FLAG_INV.items() if i in INV_C14)
FLAGS_C03 = sorted(f for f, i in FLAG_INV.items() if i in INV_C03)
FLAGS_C04 = sorted(f for f, i in FLAG_INV.items() if i in INV_C04)


def base(**kw):
    c = dict(NT=3, LevelsC={1, 2}, MaxT=4, NBr=1, PerBr=False, Type="stopping", IsMin=True, MRA=False, Ckpt=True, NThr=0,
             Vals={0, 1, 2}, Costs={0}, Faults=False, MaxRun=2, SD="none", Myopic=False, Completes=False)
    c.update(kw)
    return c


def run_mc(constants, invariants, timeout=1800, constraints=("Workers",)):
    fd, path = tempfile.mkstemp(prefix="AsyncHB_MC_", suffix=".cfg")
    os.close(fd)
    tlc.write_cfg(path, spec="Spec", constants=constants, invariants=invariants, constraints=list(constraints))
    try:
        return tlc.run("AsyncHB_MC", path, workers=16, timeout=timeout)
    finally:
        os.unlink(path)
