"""C02 - every reported result is delivered exactly once, in order, never after stop."""
from harness.props import tuner_common as T


def run(rep, tier, seed):
    rep.assume(
        "scripted workers stamp every report with (run, index); 'what the run reported' is therefore known exactly",
        "poll batches are the ones TLC chose (0..k new results per trial per poll, completion before/after the last "
        "result is seen, reports written between poll and kill)",
    )
    T.model_check(rep, "C02", tier)
    if T.model_finding_demo(rep, "C02", "R3", "ResumeStartsNewRun"):
        rep.violation({"check": "mc-demo", "invariant": "ResumeStartsNewRun"}, {})
    T.standard_campaign(rep, "C02", tier, seed)
    from harness.props import real_sched
    real_sched.campaign(rep, "C02", tier, seed)
    # the simulator back-end half of the property: what fetch_status_results hands out in simulated tuning runs
    from harness.props import c10, sim_tuner
    sim_flags = {"result_after_stop", "level_not_consecutive", "result_for_unpolled_trial", "stamp_backwards",
                 "beyond_max_resource", "value_not_from_table", "backend_raised"}
    rep.extra["simulator_backend_flags"] = sim_tuner.campaign(
        rep, tier, seed, lambda r, t, m, tag: c10.validate_traces(r, t, m, tag, flags=sim_flags))
    # binding 3: the file / poll based LocalBackend itself (real processes, stdout parsing, status files), lock step
    from harness.props import local_backend
    local_backend.campaign(rep, "C02", tier, seed)
