"""C06 - suggestions are valid, typed configurations; initial points first; no repeats."""
import json
import os
import tempfile

from harness import tlc
from harness.drivers import searcher as D
from harness.validate import validate

FLAGS = {"missing_key", "constant_changed", "wrong_type", "outside_domain", "initial_order", "repeat", "failed_resuggested",
         "suggest_after_nothing_left", "none_premature", "scheduler_raised"}
INV = ["AllKeysTypedInDomain", "ConstantsUnchanged", "InitialFirstInOrder", "NoRepeat", "FailedNotResuggested", "NoneOnlyWhenExhausted",
       "ExactlyOnce"]

P2E = {
    "s1": [None, [], [[1, -1], [-1, 1], [1, -1]], [[-1, -1], [2, 0], [-1, -1]], [[3, 1]]],
    "s2": [None, [], [[-1, 2], [1, -1], [-1, 2]], [[0, 0], [0, 0]]],
    "s3": [None, [], [[0, 2], [-1, -1]], [[-1, 1]]],
    "s4": [None, [[-1, -1, 0], [5, 3, -1]], []],
    "s5": [None, [[2, -1], [-1, 3], [2, 2]]],
    "s6": [None, [], [[1, 2], [-1, -1], [0, 0]]],
    "s7": [None, [], [[-1, 1], [3, -1]]],
    "s8": [None, [[-1, -1], [7, 0]], []],
}


def histories(seed, num, genlen, workers=2, restores=0, max_trials=14):
    fd, path = tempfile.mkstemp(prefix="Searcher_Gen_", suffix=".cfg")
    os.close(fd)
    tlc.write_cfg(path, spec="Spec", constants=dict(MaxTrials=max_trials, Workers=workers, GenLen=genlen, Restores=restores),
                  action_constraints=["Emit"], constraints=["Bound"])
    try:
        r = tlc.run("Searcher_Gen", path, workers=1, simulate=f"num={num}", depth=genlen + 2, seed=seed, timeout=300)
    finally:
        os.unlink(path)
    # the simulator prints the candidate successors of the last step too: keep distinct histories
    seen, out = set(), []
    for g in r.gen:
        k = json.dumps(g)
        if k not in seen:
            seen.add(k)
            out.append(g)
    return out


def model_check(rep):
    for sp in ("s1", "s2", "s3"):
        for p in ("none", "default", "partial") + (("dup",) if sp != "s3" else ()):
            for norep in (True, False):
                fd, path = tempfile.mkstemp(prefix="Searcher_MC_", suffix=".cfg")
                os.close(fd)
                tlc.write_cfg(path, spec="Spec", constants=dict(SpaceName=sp, P2EName=p, NoRep=norep), invariants=INV,
                              constraints=["Bound"], view="MCView")
                try:
                    r = tlc.run("Searcher_MC", path, workers=4, timeout=300)
                finally:
                    os.unlink(path)
                rep.model(f"Searcher_MC[{sp},{p},norepeat={norep}]", r)
                if r.violated:
                    rep.violation({"check": "mc", "invariant": r.violated, "config": f"{sp}/{p}"}, {"trace": tlc.short_trace(r)})


# continuous spaces: initial configurations on the bounds of the domains (one abstract value per continuous domain, so
# entries of one list differ in a finite coordinate)
P2E_CONT = {
    "sb": [None, [[0, 1]], [[1, 0]], [], [[1, 1]], [[0, 0]]],
    "sd": [None, [[0, 1, 0], [1, 0, 2]], [[1, 1, 1], [-1, 0, 0]], []],
}


def drive(rep, kinds, hists, seed, tag, per_kind, p2es=None, flags=None):
    traces, meta = [], []
    flags = FLAGS if flags is None else flags
    n = 0
    P2E_ = p2es or P2E
    for kind in kinds:
        for j in range(per_kind):
            name = list(P2E_)[(j + n) % len(P2E_)]
            p2e = P2E_[name][(j // len(P2E_) + j) % len(P2E_[name])]
            if kind.startswith("fifo_random_restrict"):
                p2e = []        # (initial configurations outside the restriction are dropped by design: none are given)
            h = hists[(j * 7 + n) % len(hists)]
            ep = D.Episode(kind, name, p2e, seed + j)
            nfail = 0
            for step in h:
                if kind == "dehb" and step["a"] == "Fail":
                    # DEHB needs three valid parents for its mutation step and gives up with an assertion when nearly all
                    # trials have failed (recorded under C13); the suggestion properties are judged with <= 1 failure
                    nfail += 1
                    if nfail > 1:
                        # (the trial finishes its job instead: left running it would add a worker the history does not have,
                        #  and DEHB's mutation step asserts when too few of the trials it started have a result)
                        for _ in range(9):
                            ep.step({"a": "Result", "t": step["t"]})
                        continue
                if kind == "dehb" and step["a"] == "Complete" and ep.level.get(step["t"], 0) == 0:
                    # (a job cannot end without a report -- Tuner.run raises on that --, and the driver would leave such
                    #  a trial running: one more worker than the history has, see above)
                    for _ in range(9):
                        ep.step({"a": "Result", "t": step["t"]})
                    continue
                ep.step(step)
            traces.append(ep.trace(len(traces) + 1))
            meta.append({"kind": kind, "space": name, "p2e": p2e, "seed": seed + j, "history": h})
        n += 1
    vs = validate("Searcher_Trace", "Searcher_Trace.cfg", traces)
    st = validate.last_stats
    rep.states += st["distinct"]
    rep.transitions += st["generated"]
    counts = {}
    for k, v in vs.items():
        tr = traces[k]
        if not v.consumed:
            raise RuntimeError(f"[{tag}] trace {k} not consumed at {v.maxl}/{v.need}")
        rep.traces += 1
        rep.count_actions(e["a"] for e in tr["ev"])
        for f in sorted(v.flags):
            counts[f] = counts.get(f, 0) + 1
            if f in flags:
                sig = {"check": "trace", "flag": f, "scheduler": meta[k]["kind"]}
                if f in ("none_premature", "suggest_after_nothing_left"):
                    sig["space"] = meta[k]["space"]
                crash = next((e for e in tr["ev"] if e["a"] == "Crash"), None)
                if crash is not None and f == "scheduler_raised":
                    sig["where"], sig["exc"] = crash["where"], crash["exc"].split("(")[0]
                rep.violation(sig, {"campaign": tag, "meta": meta[k], "conf": tr["conf"], "events": tr["ev"],
                                    "all_flags": sorted(v.flags)})
    if traces:
        rep.sample({"campaign": tag, "meta": meta[len(meta) // 2],
                    "trace_events": [json.dumps(e) for e in traces[len(traces) // 2]["ev"][:24]]})
    rep.replays += len(traces)
    return counts


def run(rep, tier, seed):
    rep.assume(
        "finite configuration spaces from the public constructors randint / choice / ordinal(equal) / finrange(cast_int) plus "
        "two constants; values are logged as indices into the domain's value list (-1 = not a member)",
        "no-repeat is required of random, grid, GP (single/multi-fidelity), HyperTune and synchronous-Hyperband searchers; "
        "DEHB, PBT exploration and regularised evolution are checked for membership / initial order only",
        "continuous domains (uniform / loguniform with bounds that do not survive the encoding round trip exactly, initial "
        "configurations on the bounds) are one abstract value for the specification: 'a float inside the bounds'; no-repeat is "
        "not judged on them",
    )
    model_check(rep)
    hists = histories(seed * 31 + 5, 60 if tier == "quick" else 400, 18 if tier == "quick" else 26)
    fast = ["fifo_random", "fifo_random_dup", "fifo_random_restrict_dup", "fifo_grid", "hb_random", "hb_random_promo", "synchb", "dehb", "pbt", "regevo",
            "hbt_pasha", "hbt_rush_stopping", "hbt_rush_promotion", "hbt_cost_promotion", "median", "moasha"]
    total = drive(rep, fast, hists, seed * 100, "model-free", 40 if tier == "quick" else 400)
    gp = ["fifo_bayesopt", "hb_bayesopt", "hb_hypertune"]
    c2 = drive(rep, gp, hists, seed * 100 + 7, "gp", 4 if tier == "quick" else 40)
    for k, v in c2.items():
        total[k] = total.get(k, 0) + v
    cont = ["fifo_random", "hb_random", "hb_random_promo", "synchb", "dehb", "pbt", "regevo", "hbt_pasha", "fifo_bayesopt", "hb_bayesopt"]
    c3 = drive(rep, cont, hists, seed * 100 + 13, "continuous", 8 if tier == "quick" else 60, p2es=P2E_CONT)
    for k, v in c3.items():
        total[k] = total.get(k, 0) + v
    rep.extra["flags_seen_in_traces"] = total
    rep.extra["histories_from_tlc"] = len(hists)
