"""C10 - simulated experiments replay the benchmark table faithfully in values and time."""
import json
import os
import tempfile

from harness import tlc
from harness.drivers import simbackend as D
from harness.validate import validate

INV = ["ClockMonotone", "ResultsFromTable", "LevelsConsecutive", "StampFormula", "WaitChargedOnce", "NoEventAfterStop"]
FLAGS = {"clock_backwards", "stamp_in_future", "stamp_backwards", "value_not_from_table", "level_not_consecutive",
         "beyond_max_resource", "stamp_formula", "sleep_not_charged_once", "result_after_stop",
         "result_for_unpolled_trial", "backend_raised", "outside_time_not_charged_once"}


def base(**kw):
    # DropStale = TRUE models the repaired code (results that arrive until the stop signal reaches the worker are
    # dropped); FALSE is the behaviour before the fix recorded in known_findings.json
    c = dict(DropStale=True, NT=2, TabName="a", DRes=50, DFin=50, DStop=50, DStart=50, DCStop=50, Sleep=100, Ckpt=True, MRA=False, Seed=0,
             MaxCalls=8, Outs=set())
    c.update(kw)
    return c


def tables(tier):
    t = {
        "a_ckpt": base(), "a_nockpt": base(Ckpt=False), "a_mra_seed2": base(MRA=True, Seed=2),
        "a_zero_delays": base(DRes=0, DFin=0, DStop=0, DStart=0, DCStop=0, Sleep=7),
        "b_nockpt_mra": base(TabName="b", Ckpt=False, MRA=True, DRes=0, DFin=0, DStart=0, MaxCalls=9),
        "a_long_sleep": base(Sleep=400, DRes=10, DFin=20, MRA=True),
        # real time passes outside the back-end between its calls (3 or 40 ticks at a time): charged once by the next call
        "a_outside": base(Outs={3, 40}, MaxCalls=7, DRes=10, DFin=10, DStop=10, DStart=10, DCStop=10),
    }
    if tier == "thorough":
        t["a_3trials"] = base(NT=3, MaxCalls=9)
        t["a_deep"] = base(MaxCalls=11)
    return t


def run_mc(c):
    fd, path = tempfile.mkstemp(prefix="SimBackend_MC_", suffix=".cfg")
    os.close(fd)
    tlc.write_cfg(path, spec="Spec", constants=c, invariants=INV, constraints=["Bound"])
    try:
        return tlc.run("SimBackend_MC", path, workers=16, timeout=1800)
    finally:
        os.unlink(path)


def gen(c, genlen, num, seed):
    fd, path = tempfile.mkstemp(prefix="SimBackend_Gen_", suffix=".cfg")
    os.close(fd)
    tlc.write_cfg(path, init="GInit", next_="GNext", constants=dict(c, GenLen=genlen, MaxCalls=genlen + 2),
                  action_constraints=["Emit"], constraints=["GBound"])
    try:
        r = tlc.run("SimBackend_Gen", path, workers=1, simulate=f"num={num}", depth=genlen + 2, seed=seed, timeout=600)
    finally:
        os.unlink(path)
    seen, out = set(), []
    for g in r.gen:
        k = json.dumps(g)
        if k not in seen:
            seen.add(k)
            out.append(g)
    return out


def trace_only(c):
    return c


def real_conf(c):
    u = D.UNIT
    return {"tab": D.table_us(c["TabName"]), "dres": c["DRes"] * u, "dfin": c["DFin"] * u, "dstop": c["DStop"] * u,
            "dstart": c["DStart"] * u, "dcstop": c["DCStop"] * u, "sleep": c["Sleep"] * u, "ckpt": c["Ckpt"], "mra": c["MRA"],
            "seed": c["Seed"]}


def validate_traces(rep, traces, meta, tag, flags=None):
    flags = FLAGS if flags is None else flags
    vs = validate("SimBackend_Trace", "SimBackend_Trace.cfg", traces)
    st = validate.last_stats
    rep.states += st["distinct"]
    rep.transitions += st["generated"]
    counts = {}
    for k, v in vs.items():
        tr = traces[k]
        if not v.consumed:
            raise RuntimeError(f"[{tag}] trace {k} not consumed at {v.maxl}/{v.need}: "
                               f"{tr['ev'][v.maxl - 1] if v.maxl - 1 < len(tr['ev']) else None}")
        rep.traces += 1
        rep.count_actions(e["a"] for e in tr["ev"])
        for f in sorted(v.flags):
            counts[f] = counts.get(f, 0) + 1
            if f in flags:
                rep.violation({"check": "trace", "flag": f}, {"campaign": tag, "meta": meta[k], "conf": tr["conf"],
                                                               "events": tr["ev"], "all_flags": sorted(v.flags)})
    if traces:
        rep.sample({"campaign": tag, "trace_events": [json.dumps(e) for e in traces[len(traces) // 2]["ev"][:20]]})
    rep.replays += len(traces)
    return counts


def run(rep, tier, seed):
    rep.assume(
        "delays, sleep time and table elapsed times are multiples of 1/64 s; simulated time is projected to integer "
        "micro-seconds (|t*1e6 - ticks| < 1e-3 or the run is discarded as machinery failure)",
        "real time is controlled (the `time` object of time_keeper.py is replaced from the harness): it passes outside the "
        "back-end only where the schedule says so (Outside events), in whole ticks",
        "the table's elapsed time is taken after the library's documented monotonicity repair (each step >= 0.01 s)",
        "tables have >= 2 hyper-parameter columns (pandas 3 single-column lookup fails, DESIGN.md section 12)",
        "the tuning loop polls all trials it believes running",
    )
    total = {}
    for name, c in tables(tier).items():
        r = run_mc(c)
        rep.model(f"SimBackend_MC[{name}]", r, constants=c)
        if r.violated:
            rep.violation({"check": "mc", "invariant": r.violated, "config": name},
                          {"trace": tlc.short_trace(r, keys=("flags", "now", "heap", "nextLv", "mode"))})
        hs = gen(c, 10 if tier == "quick" else 14, 40 if tier == "quick" else 400, seed * 53 + len(name))
        traces, meta = [], []
        conf = real_conf(c)
        for h in hs:
            ep = D.Episode(conf, rng_seed=seed * 7919 + len(traces))
            for step in h:
                ep.step(step)
            traces.append(ep.trace(len(traces) + 1))
            meta.append({"table": name, "history": h})
        cnt = validate_traces(rep, traces, meta, f"api:{name}")
        for k, v in cnt.items():
            total[k] = total.get(k, 0) + v
    from harness.props import sim_tuner
    cnt = sim_tuner.campaign(rep, tier, seed, validate_traces)
    for k, v in cnt.items():
        total[k] = total.get(k, 0) + v
    rep.extra["flags_seen_in_traces"] = total
