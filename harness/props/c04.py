"""C04 - promotion-type Hyperband (ASHA, PASHA, cost-aware) promotes only eligible trials."""
from harness import asynchb_models as A
from harness.props import asynchb_common as C


def tables(tier):
    b = A.base
    t = {
        "promo_mra": b(Type="promotion", MRA=True), "promo_max": b(Type="promotion", MRA=True, IsMin=False),
        "promo_nomra_ckpt": b(Type="promotion"), "promo_nomra_nockpt": b(Type="promotion", Ckpt=False),
        "promo_mra_nockpt": b(Type="promotion", MRA=True, Ckpt=False),
        "promo_2br_shared": b(Type="promotion", NBr=2, MRA=True), "promo_2br_perbr": b(Type="promotion", NBr=2, PerBr=True, MRA=True),
        "promo_13_5": b(Type="promotion", LevelsC={1, 3}, MaxT=5, Vals={0, 1, 2, 3}, MRA=True),
        "pasha": b(Type="pasha", LevelsC={1, 2, 4}, MaxT=8, Vals={0, 1}, MRA=True),
        "pasha_max": b(Type="pasha", LevelsC={1, 2, 3}, MaxT=4, Vals={0, 1, 2}, MRA=True, IsMin=False),
        # PASHA with two brackets sharing one rung system (F20, repaired in /repo: the ranking comparison raised IndexError
        # for a trial that skipped the lowest rung)
        "pasha_2br": b(Type="pasha", LevelsC={1, 2, 4}, MaxT=8, Vals={0, 1}, MRA=True, NBr=2),
        "cost": b(Type="cost_promotion", Costs={1, 2}, MRA=True), "cost_nockpt": b(Type="cost_promotion", Costs={1, 3}, Ckpt=False),
        "rush_promo0": b(Type="rush_promotion", NThr=0, MRA=True),
    }
    if tier == "thorough":
        t["promo_4t"] = b(Type="promotion", NT=4, Vals={0, 1, 2, 3}, MaxRun=3, MRA=True)
        t["promo_124_8"] = b(Type="promotion", LevelsC={1, 2, 4}, MaxT=8, Vals={0, 1, 2}, MRA=True)
    return t


def run(rep, tier, seed):
    rep.assume(
        "metric / cost values are small integers stored as floats; exact ties may go either way",
        "PASHA's decision to grow the cap is logged (cap read after every call), not predicted; when it grows, it grows by one "
        "rung level (cap_skips_level)",
        "cost-aware promotion is judged in general position only when metric values tie (best-first order among equal "
        "metrics is the SortedList's)",
        "RUSH promotion is covered with num_threshold_candidates = 0 only (threshold side effects of the scan are not modelled)",
    )
    C.campaign(rep, tier, seed, tables(tier), A.INV_C04, set(A.FLAGS_C04))
