"""Binding 2 on the simulator: real Tuner.run + SimulatorCallback + real schedulers on the tabular simulator back-end.
One run yields a SimBackend trace (C10, simulator half of C02) and a TunerLoop trace (C01, C12)."""
from harness import tuner_models as M
from harness.drivers import simbackend as SB
from harness.drivers import simtuner as S
from harness.drivers import tunerloop as TL


def runs(tier, seed, criteria=None, vary_sjwd=False):
    u = SB.UNIT
    n = 6 if tier == "quick" else 60
    out = []
    for ki, kind in enumerate(S.KINDS):
        # schedulers that stop trials while events of several other trials are queued get more runs (n_workers >= 2)
        extra = (12 if tier == "quick" else 60) if kind in ("hb_stopping", "hb_promotion_nomra") else 0
        for j in range(n + extra):
            s = seed * 7919 + ki * 131 + j
            conf = {"tab": S.big_table(kind="nonmono" if j % 3 == 2 else "mono"), "dres": (j % 3) * u, "dfin": (j % 3 + j % 2) * u,
                    "dstop": (1 + j % 2) * u * (j % 4 != 3), "dstart": (j % 2) * u, "dcstop": u * (j % 3 != 1),
                    "sleep": (8 + 8 * (j % 3)) * u, "ckpt": j % 4 != 1, "mra": kind != "hb_promotion_nomra", "seed": 0}
            nw = 1 + j % 4 if j < n else 2 + j % 3
            crit = criteria[j % len(criteria)] if criteria else ({"max_num_trials_started": 8 + j % 4}, "started", 8 + j % 4, False)
            if crit[1] != "started" and kind not in ("fifo", "hb_stopping"):
                # pause-and-resume schedulers may keep every trial paused: a finished / completed budget need never hold
                started = [c for c in criteria if c[1] == "started"]
                crit = started[j % len(started)]
            sjwd = not (vary_sjwd and j % 3 == 1)      # start_jobs_without_delay = False: the tuner asks busy_trial_ids()
            sim_trace, tl_ev, tuner = S.run(kind, s, nw, conf, crit[0], tuner_conf={"async": j % 5 != 4, "wait": j % 6 == 5, "sjwd": sjwd})
            tlconf = {"nw": nw, "kind": "pause", "maxfail": 3, "ckind": crit[1], "k": crit[2], "also": crit[3], "sim": True,
                      "async": j % 5 != 4, "wait": j % 6 == 5, "sjwd": sjwd}
            out.append((sim_trace, TL.to_trace({"conf": tlconf, "ev": tl_ev}, 0),
                        {"scheduler": kind, "seed": s, "n_workers": nw, "criterion": crit[0], "start_jobs_without_delay": sjwd}))
    return out


def campaign(rep, tier, seed, validate_sim_traces):
    """C10: the SimBackend traces of the simulated tuning runs."""
    rs = runs(tier, seed)
    traces, meta = [], []
    for sim_trace, _, m in rs:
        sim_trace["id"] = len(traces) + 1
        traces.append(sim_trace)
        meta.append(m)
    return validate_sim_traces(rep, traces, meta, "tuner+SimulatorCallback")


def campaign_tunerloop(rep, pid, tier, seed, criteria=None):
    """C01 / C12: the TunerLoop traces of simulated tuning runs."""
    from harness.props import tuner_common as T
    rs = runs(tier, seed + 1, criteria, vary_sjwd=True)
    traces, meta = [], []
    for _, tl, m in rs:
        tl["id"] = len(traces) + 1
        traces.append(tl)
        meta.append(m)
    flags = set(M.PROP_FLAGS[pid]) - {"left_running"}
    c = T.validate_traces(rep, traces, meta, pid, flags, "simulator-tuner")
    rep.replays += len(traces)
    rep.extra["simulator_tuner_flags"] = c
    return c
