"""Binding 2 of C10: real Tuner.run + SimulatorCallback + real schedulers on the tabular simulator back-end."""


def campaign(rep, tier, seed, validate_traces):
    return {}
