"""C11 - seeded runs are reproducible."""
import json
import os
import random
import subprocess
import sys

import numpy as np

from harness import tlc, twin
from harness.drivers import searcher as DS
from harness.props import c06

MODEL_FREE = ["fifo_random", "fifo_random_dup", "fifo_grid", "hb_random", "hb_random_promo", "synchb", "dehb", "pbt", "regevo",
              "median"]


def perturb(k, kind, name, seed, others):
    """Environment actions of TwinSeed: global generators re-seeded and drawn from, an unrelated scheduler created and
    stepped (model-free schedulers promise independence of other instances)."""
    np.random.seed(1000 + k)
    random.seed(2000 + k)
    np.random.rand(k % 5 + 1)
    random.random()
    if k % 2 == 0:
        o = DS.Episode(kind, name, None, seed + 17 + k)
        others.append(o)
    for o in others:
        o.suggest()


def inprocess_twins(rep, tier, seed):
    hists = c06.histories(seed * 19 + 2, 80 if tier == "quick" else 500, 20 if tier == "quick" else 28, workers=3, restores=3)
    hists = [h for h in hists if any(s["a"] == "Restore" for s in h)]
    rep.extra["histories_from_tlc"] = len(hists)
    n = 12 if tier == "quick" else 120
    runs = []
    for ki, kind in enumerate(MODEL_FREE):
        for j in range(n):
            name = list(c06.P2E)[(j + ki) % len(c06.P2E)]
            p2e = c06.P2E[name][(j // 3 + j) % len(c06.P2E[name])]
            h = hists[(j * 5 + ki) % len(hists)]
            a = DS.Episode(kind, name, p2e, seed + j)
            b = DS.Episode(kind, name, p2e, seed + j)
            others, ev, k = [], [], 0
            for step in h:
                if step["a"] == "Restore":          # a perturbation point chosen by TLC
                    k += 1
                    perturb(k, kind, name, seed + j, others)
                    continue
                na, nb = len(a.outputs), len(b.outputs)
                a.step(step)
                # twin B additionally sees the perturbed global state; A runs first so that B's draws follow the perturbation
                b.step(step)
                ev.append({"same": a.outputs[na:] == b.outputs[nb:], "excused": False})
            # and the whole of A must equal a third twin created and run AFTER all the perturbations
            c = DS.Episode(kind, name, p2e, seed + j)
            for step in h:
                if step["a"] != "Restore":
                    c.step(step)
            ev.append({"same": a.outputs == c.outputs, "excused": False})
            runs.append({"ev": ev, "crashed": a.crashed != b.crashed, "meta": {"scheduler": kind, "space": name, "seed": seed + j, "history": h}})
    rep.extra["inprocess_twin_flags"] = twin.judge(rep, runs, "in-process-twins",
                                                   sig_extra=lambda r: {"scheduler": r["meta"]["scheduler"]})


def proc(spec, hashseed):
    env = dict(os.environ, PYTHONHASHSEED=str(hashseed), PYTHONPATH=os.pathsep.join([os.path.dirname(os.path.dirname(os.path.dirname(os.path.abspath(__file__))))] + ([os.environ["PYTHONPATH"]] if os.environ.get("PYTHONPATH") else [])))
    p = subprocess.run([sys.executable, "-m", "harness.twin_proc", json.dumps(spec)], capture_output=True, text=True, env=env,
                       cwd=os.path.dirname(os.path.dirname(os.path.dirname(os.path.abspath(__file__)))), timeout=900)
    for line in p.stdout.splitlines():
        if line.startswith("@@OUT@@"):
            return line[7:]
    raise RuntimeError(f"twin process failed: {p.stderr[-800:]}")


def fresh_process_twins(rep, tier, seed):
    hists = c06.histories(seed * 19 + 4, 30, 22, workers=2, restores=2)
    specs = []
    for i, kind in enumerate(["fifo_bayesopt", "hb_bayesopt", "hb_hypertune", "fifo_random", "dehb", "pbt"][: (4 if tier == "quick" else 6)]):
        specs.append({"what": "scheduler", "kind": kind, "space": ["s1", "s4", "s6"][i % 3], "p2e": None, "seed": seed + i,
                      "history": hists[i % len(hists)]})
    # a long sequential history on a continuous space for HyperTune: its ensemble / bracket distribution is re-estimated
    # from sampled ranking losses once the second rung holds enough results (20 trials, up to 9 reports each)
    from harness.props import c16
    specs.append({"what": "scheduler", "kind": "hbdeep_hypertune", "space": "sc", "p2e": [], "seed": seed + 9,
                  "history": c16.deep_gp_history(20 if tier == "quick" else 30, [])})
    for i, kind in enumerate(["hb_promotion", "fifo", "synchb"][: (2 if tier == "quick" else 3)]):
        specs.append({"what": "simulation", "kind": kind, "seed": seed + i, "n_workers": 2 + i})
    # PASHA on tie-heavy learning curves: sets of trial ids are involved in its ranking logic (hash seeds 0 and 2)
    specs.append({"what": "pasha_ties", "kind": "pasha_ties", "seed": 11, "n": 12 if tier == "quick" else 40, "suggests": 30})
    runs = []
    from concurrent.futures import ThreadPoolExecutor
    jobs = []
    with ThreadPoolExecutor(max_workers=8) as ex:
        for s in specs:
            ha, hb = (0, 2) if s["what"] == "pasha_ties" else (11, 4242)
            jobs.append((s, ex.submit(proc, dict(s, np_seed=1, py_seed=2), ha), ex.submit(proc, dict(s, np_seed=77, py_seed=99), hb)))
        for s, fa, fb in jobs:
            a, b = fa.result(), fb.result()
            runs.append({"ev": [{"same": a == b, "excused": False}], "crashed": False,
                         "meta": {"spec": {k: v for k, v in s.items() if k != "history"}, "len": len(a)}})
    rep.extra["fresh_process_twin_flags"] = twin.judge(rep, runs, "fresh-process-twins",
                                                       sig_extra=lambda r: {"what": r["meta"]["spec"].get("kind")})
    rep.sample({"fresh_process_twin": runs[0]["meta"]})


def run(rep, tier, seed):
    rep.assume(
        "perturbation points are the extra events of TLC-generated histories (Searcher_Gen); at each one numpy's and Python's "
        "global generators are re-seeded and drawn from, and (model-free schedulers) an unrelated scheduler is created / stepped",
        "GP-based searchers and simulated experiments are compared across two FRESH processes with different PYTHONHASHSEED and "
        "different global-generator seeds (in-process bit-equality of GP searchers is not promised)",
        "MOASHA and MedianStoppingRule's wrapper take no random_seed of their own (median: the seed of the wrapped FIFO scheduler)",
    )
    r = tlc.run("TwinSeed_MC", "TwinSeed_MC.cfg", workers=4, timeout=300)
    rep.model("TwinSeed_MC (non-interference of environment actions on the outputs of a seeded searcher)", r)
    if r.violated:
        rep.violation({"check": "mc", "invariant": r.violated}, {"trace": tlc.short_trace(r)})
    inprocess_twins(rep, tier, seed)
    fresh_process_twins(rep, tier, seed)
