"""C15 - minimising f and maximising -f are the same experiment."""
import json
import os
import tempfile

from harness import tlc, twin
from harness import asynchb_models as A
from harness import synchb_models as SM
from harness.drivers import asynchb as DA
from harness.drivers import searcher as DS
from harness.drivers import synchb as DSY
from harness.props import asynchb_common as AC
from harness.validate import validate

TWIN_INV = ["SameState", "SameRungs", "SameSuggest", "SameDecision", "BothClean"]


def twinmode_mc(rep, tier):
    base = dict(NT=3, LevelsC={1, 2}, MaxT=4, NBr=1, PerBr=False, Type="stopping", MRA=False, Ckpt=True, Vals={0, 1, 2}, Top=2, MaxRun=2)
    tabs = {"stopping": base, "promotion": dict(base, Type="promotion", MRA=True),
            "stopping_13_5": dict(base, LevelsC={1, 3}, MaxT=5, Vals={0, 1, 2, 3}, Top=3),
            "pasha": dict(base, Type="pasha", LevelsC={1, 2, 4}, MaxT=8, Vals={0, 1}, Top=1, MRA=True),
            "promotion_2br_perbr": dict(base, Type="promotion", NBr=2, PerBr=True, MRA=True),
            "cost_promotion": dict(base, Type="cost_promotion", MRA=True),
            "stopping_2br": dict(base, NBr=2)}
    if tier == "thorough":
        # (four trials; 0.44 M states, 1-2 min.  The former table with four values and three concurrent trials needs more
        #  than 30 min when other suites share the machine)
        tabs["promotion_4t"] = dict(base, Type="promotion", MRA=True, NT=4, Vals={0, 1, 2}, Top=2, MaxRun=2)
    for name, c in tabs.items():
        fd, path = tempfile.mkstemp(prefix="TwinMode_MC_", suffix=".cfg")
        os.close(fd)
        tlc.write_cfg(path, spec="Spec", constants=c, invariants=TWIN_INV, constraints=["Workers"])
        try:
            r = tlc.run("TwinMode_MC", path, workers=16, timeout=3000)
        finally:
            os.unlink(path)
        rep.model(f"TwinMode_MC[{name}]", r)
        if r.violated:
            rep.violation({"check": "mc", "invariant": r.violated, "config": name},
                          {"trace": tlc.short_trace(r, keys=("a_st", "b_st", "a_rung", "b_rung"))})


def asynchb_twins(rep, tier, seed):
    """min on v versus max on -v for every asynchronous Hyperband type; twin B's trace is judged by AsyncHB_Trace
    (its own mode's rule + SameAsTwin, exact ties excused)."""
    b = A.base
    tabs = {"stopping": b(Vals={0, 1, 2, 3}), "stopping_2br": b(NBr=2, Vals={0, 1, 2, 3}),
            "promotion": b(Type="promotion", MRA=True, Vals={0, 1, 2, 3}), "promotion_nockpt": b(Type="promotion", Ckpt=False),
            "pasha": b(Type="pasha", LevelsC={1, 2, 4}, MaxT=8, Vals={0, 1, 2}, MRA=True),
            "cost_promotion": b(Type="cost_promotion", Costs={1, 2}, MRA=True),
            "rush_stopping": b(Type="rush_stopping", NThr=1),
            # two threshold candidates (the first points_to_evaluate): the threshold of a level is the better of their values
            "rush_stopping_2": b(Type="rush_stopping", NThr=2, NT=4, Vals={0, 1, 2, 3}),
            "rush_promotion_2": b(Type="rush_promotion", NThr=2, NT=4, MRA=True, Vals={0, 1, 2, 3})}
    total = {}
    for name, c in tabs.items():
        # (the threshold rule of RUSH only bites when a later trial lies between two candidates: more schedules)
        num = (12 if tier == "quick" else 150) * (8 if name.endswith("_2") else 1)
        g = AC.gen(c, 16 if tier == "quick" else 22, num, seed * 577 + len(name))
        conf_a = DA.conf_from_constants(c)
        conf_b = dict(conf_a, min=not conf_a["min"])
        traces, meta = [], []
        for i, sch in enumerate(g.gen):
            ea, eb = DA.Episode(conf_a, seed + i, log_rung_sizes=False), DA.Episode(conf_b, seed + i, log_rung_sizes=False)
            for h in sch:
                na, nb = len(ea.ev), len(eb.ev)
                if h["a"] == "Suggest":
                    ea.suggest()
                    eb.suggest()
                elif h["a"] == "Report":
                    ea.report(h["t"], h["v"], h.get("c", 0))
                    eb.report(h["t"], -h["v"], h.get("c", 0))
                elif h["a"] == "Error":
                    ea.error(h["t"])
                    eb.error(h["t"])
                xa = [{k: v for k, v in e.items() if k != "v"} for e in ea.ev[na:]]
                xb = [{k: v for k, v in e.items() if k != "v"} for e in eb.ev[nb:]]
                cfg_a = [ea.trials[e["t"]].config for e in ea.ev[na:] if e["a"] == "Start"]
                cfg_b = [eb.trials[e["t"]].config for e in eb.ev[nb:] if e["a"] == "Start"]
                if xa != xb or cfg_a != cfg_b:
                    eb.ev.append({"a": "Diverge", "A": json.dumps(xa)[:300], "B": json.dumps(xb)[:300]})
            traces.append(eb.trace(len(traces) + 1))
            meta.append({"table": name, "schedule": sch, "seed": seed + i})
        vs = validate("AsyncHB_Trace", "AsyncHB_Trace.cfg", traces)
        st = validate.last_stats
        rep.states += st["distinct"]
        rep.transitions += st["generated"]
        for k, v in vs.items():
            if not v.consumed:
                raise RuntimeError(f"[asynchb-twin:{name}] trace {k} not consumed at {v.maxl}/{v.need}")
            rep.traces += 1
            for f in sorted(v.flags):
                total[f] = total.get(f, 0) + 1
                if f in ("twin_diverged", "scheduler_raised"):
                    rep.violation({"check": "trace", "flag": f, "type": traces[k]["conf"]["type"]},
                                  {"meta": meta[k], "events": traces[k]["ev"][-14:]})
        rep.replays += len(traces)
    rep.extra["asynchb_twin_flags"] = total


def pasha_noisy_twins(rep, tier, seed):
    """PASHA's cap-growth trigger (soft ranking with an estimated epsilon) only acts on noisy, crossing learning curves:
    four lock-step workers on random real-valued tables in general position, reduction factor 2 (exact quantiles, so no
    threshold is within round-off of a metric value), 30 trials, max resource 32.  Both twins are compared on every
    suggestion, decision and on the cap; judged by specs/Twin.tla."""
    import numpy as np
    levels = [1, 2, 4, 8, 16]
    conf_a = {"levels": levels, "maxt": 32, "nbr": 1, "perbr": False, "type": "pasha", "min": True, "mra": True, "ckpt": True,
              "nthr": 0, "cap0": 2}
    conf_b = dict(conf_a, min=False)
    n = 100 if tier == "quick" else 600
    runs = []
    for k in range(n):
        rs = np.random.RandomState(seed * 7001 + k)
        base, decay = rs.uniform(0.0, 1.0, size=40), rs.uniform(0.5, 1.5, size=40)
        noise = rs.normal(0.0, 0.25, size=(40, 33))
        f = lambda t, e: float(base[t] + decay[t] / e + noise[t, e] / np.sqrt(e))
        ea, eb = DA.Episode(conf_a, seed + k, log_rung_sizes=False), DA.Episode(conf_b, seed + k, log_rung_sizes=False)
        ev = []
        for step in range(260):
            na, nb = len(ea.ev), len(eb.ev)
            while len(ea.running()) < 4 and ea.next_id < 30:
                before = len(ea.ev)
                ea.suggest()
                eb.suggest()
                if len(ea.ev) == before:
                    break
            for t in sorted(ea.running()):
                r = ea.lastr[t] + 1
                ea.report(t, f(t, r), 0)
                eb.report(t, -f(t, r), 0)
            xa = [{kk: vv for kk, vv in e.items() if kk not in ("v",)} for e in ea.ev[na:]]
            xb = [{kk: vv for kk, vv in e.items() if kk not in ("v",)} for e in eb.ev[nb:]]
            ev.append({"same": xa == xb, "excused": False, "A": json.dumps(xa)[:200], "B": json.dumps(xb)[:200]})
            if not ea.running() and ea.next_id >= 30:
                break
        runs.append({"ev": ev, "crashed": ea.crashed != eb.crashed, "meta": {"table_seed": seed * 7001 + k}})
    rep.extra["pasha_noisy_twin_flags"] = twin.judge(rep, runs, "pasha-noisy-twins")


def generic_twins(rep, tier, seed):
    """Schedulers without a rule-level monitor: outputs of the min twin and of the max twin (negated metric) compared
    step by step; judged by specs/Twin.tla."""
    from harness.props import c06
    hists = c06.histories(seed * 23 + 9, 60 if tier == "quick" else 400, 22 if tier == "quick" else 30, workers=3)
    kinds = ["fifo_random", "fifo_grid", "hb_random", "hb_random_promo", "synchb", "dehb", "pbt", "regevo", "median"]
    n = 12 if tier == "quick" else 120
    runs = []
    for ki, kind in enumerate(kinds):
        for j in range(n):
            name = ["s1", "s4", "s5", "s6"][(j + ki) % 4]
            h = hists[(j * 3 + ki) % len(hists)]
            a = DS.Episode(kind, name, None, seed + j, mode="min")
            b = DS.Episode(kind, name, None, seed + j, mode="max")
            ev = []
            for step in h:
                na, nb = len(a.outputs), len(b.outputs)
                a.step(step)
                b.step(step)
                ev.append({"same": a.outputs[na:] == b.outputs[nb:], "excused": False,
                           "A": repr(a.outputs[na:])[:200], "B": repr(b.outputs[nb:])[:200]})
            runs.append({"ev": ev, "crashed": a.crashed != b.crashed, "meta": {"scheduler": kind, "space": name, "seed": seed + j, "history": h}})
    c = twin.judge(rep, runs, "scheduler-twins", sig_extra=lambda r: {"scheduler": r["meta"]["scheduler"]})
    rep.extra["generic_twin_flags"] = c


def moasha_twins(rep, tier, seed):
    from harness.props import c19
    confs = [({"dim": 2, "mode": ["min", "max"], "max_t": 8, "grace": 1, "rf": 2, "brackets": 1}, ["max", "min"]),
             ({"dim": 2, "mode": "max", "max_t": 9, "grace": 1, "rf": 3, "brackets": 2}, "min"),
             ({"dim": 3, "mode": ["max", "min", "min"], "max_t": 8, "grace": 2, "rf": 2, "brackets": 1}, ["min", "max", "max"])]
    runs = []
    for ci, (sc, flipped) in enumerate(confs):
        scheds = c19.moasha_schedules(seed * 29 + ci, 150 if tier == "quick" else 1500, 28, 8, (0, 1, 2, 3), sc["dim"], maxskip=3)
        for k, s in enumerate(scheds):
            ca = c19.moasha_episode(sc, s, seed * 100 + k)
            s2 = [dict(h, v=[-x for x in h["v"]]) if h["a"] == "Report" else h for h in s]
            cb = c19.moasha_episode(dict(sc, mode=flipped), s2, seed * 100 + k)
            ev = [{"same": (x["f"], x["d"]) == (y["f"], y["d"]), "excused": False} for x, y in zip(ca, cb)]
            ev.append({"same": len(ca) == len(cb), "excused": False})
            runs.append({"ev": ev, "crashed": False, "meta": {"moasha": sc, "schedule": s}})
    rep.extra["moasha_twin_flags"] = twin.judge(rep, runs, "moasha-twins")


def best_config_twins(rep, tier, seed):
    """Tuner.best_config / load_experiment(...).best_config under the mode flip (same scripted run, negated values)."""
    from harness.props import c17, tuner_common as T
    gen, conf = T.generate("stop", seed * 100 + 91, 25 if tier == "quick" else 250, minlen=140, depth=420)
    runs = []
    for gi, g in enumerate(gen):
        orig = c17.values_fn
        ta, _ = c17.one_run(g, conf, "min", "int", 1e9)
        c17.values_fn = lambda kind, o=orig: (lambda t, r, i: -o(kind)(t, r, i))
        try:
            tb, _ = c17.one_run(g, conf, "max", "int", 1e9)
        finally:
            c17.values_fn = orig
        fa = next((e for e in reversed(ta["ev"]) if e["a"] == "Final"), {})
        fb = next((e for e in reversed(tb["ev"]) if e["a"] == "Final"), {})
        same = fa.get("a") == fb.get("a") == "Final" and fa["bestT"] == fb["bestT"] and fa["bestL"] == fb["bestL"]
        runs.append({"ev": [{"same": bool(same), "excused": False}], "crashed": False,
                     "meta": {"min": {k: fa.get(k) for k in ("bestT", "bestL")}, "max": {k: fb.get(k) for k in ("bestT", "bestL")}}})
    rep.extra["best_config_twin_flags"] = twin.judge(rep, runs, "best-config-twins")


def run(rep, tier, seed):
    rep.assume(
        "metric values are integers (plus dyadic fractions in the generic twins); a divergence is excused only when some "
        "decision of the run was an exact tie with a threshold (the property exempts thresholds within round-off)",
        "both twins use the same random_seed; suggestions of random / grid / evolution searchers are compared exactly",
        "model-based searchers are outside the property",
    )
    twinmode_mc(rep, tier)
    asynchb_twins(rep, tier, seed)
    pasha_noisy_twins(rep, tier, seed)
    generic_twins(rep, tier, seed)
    moasha_twins(rep, tier, seed)
    best_config_twins(rep, tier, seed)
