"""Campaign of binding 3: TLC-generated behaviours of TunerLoop executed by the real Tuner.run on the REAL LocalBackend
(lock-step puppet processes), validated by TunerLoop_Trace."""
import concurrent.futures as cf
import os

from harness import tuner_models as M
from harness.props import tuner_common as T

TABLES = {
    # name: (Gen constants, conf of the real run); no stops from outside the tuner in this binding (ExtB = 0)
    "local_pause": (dict(M.BASE, NT=3, MaxRep=2, MaxRuns=3, FailB=1, ExtB=0, EmptyExit=False, MayExhaust=True, R3=False, R13=False),
                    {"nw": 2, "kind": "pause", "del": True, "maxfail": 1}),
    "local_stop": (dict(M.BASE, NT=4, Kind="stop", MaxRep=2, MaxRuns=1, FailB=2, ExtB=0, MaxFail=2, R3=False, R13=False),
                   {"nw": 2, "kind": "stop", "del": False, "maxfail": 2}),
    "local_pbt": (dict(M.BASE, NT=4, Kind="pbt", MaxRep=2, MaxRuns=1, FailB=0, R3=False, R13=False, R8=True),
                  {"nw": 2, "kind": "pbt", "del": True, "maxfail": 1}),
    "local_ask": (dict(M.BASE, NT=3, Kind="pause", MaxRep=2, MaxRuns=2, FailB=1, R3=False, R13=False, Sjwd=False),
                  {"nw": 2, "kind": "pause", "del": True, "maxfail": 1, "sjwd": False}),
}


def _one(args):
    hist, conf, tid = args
    from harness.drivers import tunerloop as D
    from harness.drivers.localbackend import LockstepLocalBackend
    script = D.Script.from_hist(hist)
    log = []
    backend = LockstepLocalBackend(script, log, delete_checkpoints=bool(conf.get("del", False)))
    try:
        run = D.run_tuner(conf, script, backend=backend)
    finally:
        backend.kill_everything()
    return D.to_trace(run, tid), script.to_json()


def campaign(rep, pid, tier, seed, tables=None, n=None):
    flags = set(M.PROP_FLAGS[pid])
    n = n or (12 if tier == "quick" else 120)
    total = {}
    for ti, name in enumerate(tables or list(TABLES)):
        constants, conf = TABLES[name]
        T.GEN_TABLES[name] = (constants, conf)
        try:
            gen, _ = T.generate(name, seed * 100 + 50 + ti, n, minlen=40, depth=200)
        finally:
            del T.GEN_TABLES[name]
        jobs = [(g, conf, i + 1) for i, g in enumerate(gen)]
        with cf.ProcessPoolExecutor(max_workers=min(12, os.cpu_count() or 4)) as ex:
            out = list(ex.map(_one, jobs))
        traces = [o[0] for o in out]
        scripts = [o[1] for o in out]
        c = T.validate_traces(rep, traces, scripts, pid, flags, f"local-backend:{name}")
        rep.replays += len(traces)
        for k, v in c.items():
            total[k] = total.get(k, 0) + v
    rep.extra.setdefault("local_backend_runs", {})["flags_seen"] = total
    rep.extra["local_backend_runs"]["tables"] = list(tables or TABLES)
    return total
