"""C13 - trial failures are contained (tuner part: TunerLoop; scheduler part: see asynchb / synchb campaigns)."""
from harness.props import tuner_common as T


def run(rep, tier, seed):
    rep.assume("failures are placed by TLC (W_Fail / W_ExtStop at every observation point of every run)")
    T.model_check(rep, "C13", tier, names=None if tier == "thorough" else
                  ["pause_2t", "stop_fail_ext", "crit_completed", "crit_finished", "wait_done"])
    T.standard_campaign(rep, "C13", tier, seed, tables=["pause", "stop", "nw1", "wait"])
    from harness.props import real_sched
    real_sched.campaign(rep, "C13", tier, seed, failures=True)
    # scheduler level: failures inside synchronous and asynchronous Hyperband
    from harness.props import c05, asynchb_common
    from harness import asynchb_models as A
    rep.extra["synchb_failure_flags"] = c05.campaign_c13(rep, tier, seed)
    tabs = {"stop_faults": A.base(Faults=True), "promo_faults": A.base(Type="promotion", MRA=True, Faults=True),
            "promo_nockpt_faults": A.base(Type="promotion", Ckpt=False, Faults=True, IsMin=False)}
    rep.extra["asynchb_failure_flags"] = asynchb_common.campaign(
        rep, tier, seed, tabs, ["PromoteOnlyEligible", "NeverRaises"],
        {"promote_not_paused", "scheduler_raised", "promoted_twice", "promote_not_in_rung"})
    # the searcher's bookkeeping under failures (model-based searchers): pending evaluations of a failed trial disappear,
    # those of the other trials stay (GP, HyperTune and DyHPO searchers on the same schedules)
    tabs_sd = {"stop_all_faults": A.base(SD="all", Faults=True, Vals={0, 1}),
               "promo_all_myopic_faults": A.base(Type="promotion", SD="all", Myopic=True, MRA=True, Faults=True, Vals={0, 1})}
    variants = {"stop_all_faults": [{"searcher": "hypertune"}],
                "promo_all_myopic_faults": [{"searcher": "hypertune"}, {"searcher": "dyhpo", "sched_type": "dyhpo"}]}
    rep.extra["searcher_bookkeeping_failure_flags"] = asynchb_common.campaign(
        rep, tier, seed + 1, tabs_sd, ["PendingOnlyLive", "NeverRaises"], {"pending_not_running", "scheduler_raised"}, variants=variants)
    # binding 3: crashing worker processes (exit code 1) on the real LocalBackend
    from harness.props import local_backend
    local_backend.campaign(rep, "C13", tier, seed, tables=["local_pause", "local_stop", "local_ask"])
