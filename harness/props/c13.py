"""C13 - trial failures are contained (tuner part: TunerLoop; scheduler part: see asynchb / synchb campaigns)."""
from harness.props import tuner_common as T


def run(rep, tier, seed):
    rep.assume("failures are placed by TLC (W_Fail / W_ExtStop at every observation point of every run)")
    T.model_check(rep, "C13", tier, names=None if tier == "thorough" else
                  ["pause_2t", "stop_fail_ext", "crit_completed", "crit_finished", "wait_done"])
    T.standard_campaign(rep, "C13", tier, seed, tables=["pause", "stop", "nw1", "wait"])
    from harness.props import real_sched
    real_sched.campaign(rep, "C13", tier, seed, failures=True)
