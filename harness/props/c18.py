"""C18 - metrics reported by a training script arrive unchanged at the tuner."""
import contextlib
import io
import json
import math
import os
import random
import re
import tempfile

import numpy as np

from harness import tlc

TAG = "[tune-metric]: "
_RE_F = re.compile(r'<<\s*"@@FLG@@",\s*(\d+),\s*\{([^{}]*)\}\s*>>')
OTHER = list("abcXYZ019 _-:,.[]()=+*/%$#@!?<>|~^&;'`") + ["é", "ß", "λ", "雪", "🙂", "\t"]


def tokenize(text):
    out, i = [], 0
    while i < len(text):
        if text.startswith(TAG, i):
            out.append("TAG")
            i += len(TAG)
            continue
        c = text[i]
        out.append({"{": "LB", "}": "RB", "\n": "NL", '"': "Q", "\\": "BS"}.get(c, "O"))
        i += 1
    return out


def concretise(tok, rnd, noise):
    s = []
    for t in tok:
        s.append({"TAG": TAG, "LB": "{", "RB": "}", "NL": "\n", "Q": '"', "BS": "\\"}.get(t) or rnd.choice(OTHER))
    return "".join(s)


def rich_value(rnd, depth=0):
    k = rnd.randrange(12 if depth < 2 else 8)
    if k == 0:
        return rnd.randrange(-5, 1000)
    if k == 1:
        return rnd.random() * 10 ** rnd.randrange(-5, 6)
    if k == 2:
        return rnd.choice([float("nan"), float("inf"), float("-inf"), 0.0, -0.0, 1e-320, 1.7976931348623157e308])
    if k == 3:
        return rnd.choice([np.int64(7), np.float32(1.5), np.float64(2.25), np.bool_(True), np.int8(-3), np.uint16(65535)])
    if k == 4:
        return rnd.choice(["{", "}", "}{", '"', "\\", "\n", "a\nb", TAG + "{\"x\": 1}", "[tune-metric]:", "{\"a\": {", "\\\"", "ünï", ""])
    if k == 5:
        return concretise([rnd.choice(["TAG", "LB", "RB", "NL", "Q", "BS", "O"]) for _ in range(rnd.randrange(1, 6))], rnd, False)
    if k == 6:
        return rnd.choice([True, False])
    if k == 7:
        return "x" * rnd.randrange(0, 300)
    if k in (8, 9):
        return [rich_value(rnd, depth + 1) for _ in range(rnd.randrange(0, 4))]
    return {rich_key(rnd): rich_value(rnd, depth + 1) for _ in range(rnd.randrange(0, 3))}


def rich_key(rnd):
    return rnd.choice(["loss", "acc", "epoch", "a{b", "c}d", 'q"uote', "back\\slash", "new\nline", "k" * 40, "tag" + TAG,
                       "ünï", "sp ace", "1", ""]) + str(rnd.randrange(3))


def plain(v):
    """The numpy -> plain-number map the property prescribes (everything else unchanged)."""
    if isinstance(v, np.generic):
        return v.item()
    if isinstance(v, list):
        return [plain(x) for x in v]
    if isinstance(v, dict):
        return {k: plain(x) for k, x in v.items()}
    return v


def same(a, b):
    if isinstance(a, float) and isinstance(b, float):
        return (math.isnan(a) and math.isnan(b)) or (a == b and math.copysign(1, a) == math.copysign(1, b))
    if isinstance(a, bool) != isinstance(b, bool):
        return False
    if isinstance(a, (int, float)) and isinstance(b, (int, float)):
        return type(a) is type(b) and a == b
    if isinstance(a, list) and isinstance(b, list):
        return len(a) == len(b) and all(same(x, y) for x, y in zip(a, b))
    if isinstance(a, dict) and isinstance(b, dict):
        return list(a.keys()) == list(b.keys()) and all(same(a[k], b[k]) for k in a)
    return type(a) is type(b) and a == b


class Unserialisable:
    pass


def bad_report(rnd):
    k = rnd.randrange(6)
    if k == 0:
        return {"st_reserved": 1, "loss": 0.5}
    if k == 1:
        return {"loss": Unserialisable()}
    if k == 2:
        return {"loss": {1, 2, 3}}
    if k == 3:
        return {"big": "x" * 60000}
    if k == 4:
        return {"arr": np.arange(3)}
    return {"loss": 1.0, "nested": {"deep": [Unserialisable()]}}


def run_script(chunks, rnd):
    """chunks from TLC: [kind, tok].  Returns the trace record of one captured stdout."""
    from syne_tune.report import Reporter, retrieve
    from syne_tune.constants import ST_WORKER_ITER, ST_WORKER_TIMESTAMP
    buf = io.StringIO()
    rec_chunks, sent = [], []
    rejected_ok, rejected_silent, good_ok = True, True, True
    with contextlib.redirect_stdout(buf):
        report = Reporter()
        for ch in chunks:
            before = buf.getvalue()
            if ch["kind"] == "noise":
                buf.write(concretise(ch["tok"], rnd, True))
                rec_chunks.append({"kind": "noise", "tok": tokenize(buf.getvalue()[len(before):]), "pay": []})
            elif ch["kind"] == "report":
                d = {rich_key(rnd): rich_value(rnd) for _ in range(rnd.randrange(1, 4))}
                d["payload"] = concretise(ch["tok"], rnd, False)          # the token string TLC chose, inside a JSON string
                d = {k: v for k, v in d.items() if v is not None}
                try:
                    report(**d)
                except Exception:
                    # the code under test refused a report the property promises to deliver (judged by the specification)
                    good_ok = False
                    written = buf.getvalue()[len(before):]
                    if written:
                        rec_chunks.append({"kind": "noise", "tok": tokenize(written), "pay": []})
                    continue
                text = buf.getvalue()[len(before):]
                tok = tokenize(text)
                rec_chunks.append({"kind": "report", "tok": tok, "pay": tok[2:-2]})
                sent.append(d)
            else:
                d = bad_report(rnd)
                accepted = True
                try:
                    report(**d)
                    rejected_ok = False
                except Exception:
                    accepted = False
                written = buf.getvalue()[len(before):]
                if accepted:
                    # the bad report went through: it IS a report on the stream (judged by bad_report_not_rejected)
                    tok = tokenize(written)
                    rec_chunks.append({"kind": "report", "tok": tok, "pay": tok[2:-2]})
                    sent.append(None)
                    continue
                if TAG in written:
                    rejected_silent = False        # a rejected report must not put a (partial) report on the stream
                if written:
                    # an explanatory message of the rejection is ordinary noise
                    rec_chunks.append({"kind": "noise", "tok": tokenize(written), "pay": []})
    text = buf.getvalue()
    lines = text.splitlines(keepends=True)          # what LocalBackend.stdout() returns (file.readlines())
    got = retrieve(log_lines=lines)
    eq, iters, stamps = [], [], []
    for i, g in enumerate(got):
        iters.append(int(g.get(ST_WORKER_ITER, -1)))
        stamps.append(int(round(float(g.get(ST_WORKER_TIMESTAMP, 0)) * 1000)) % 2000000000)
        user = {k: v for k, v in g.items() if not k.startswith("st_")}
        eq.append(i < len(sent) and (sent[i] is None or same(user, plain(sent[i]))))
    return {"chunks": rec_chunks, "nret": len(got), "eq": eq, "iters": iters, "stamps": stamps,
            "rejected_ok": rejected_ok, "rejected_silent": rejected_silent, "good_ok": good_ok, "text": text[:600]}


def gen_streams(seed, num, chunks, pay, noise):
    fd, path = tempfile.mkstemp(prefix="ReportChannel_Gen_", suffix=".cfg")
    os.close(fd)
    tlc.write_cfg(path, init="GInit", next_="GNext", constants=dict(MaxChunks=chunks, MaxPay=pay, MaxNoise=noise),
                  action_constraints=["Emit"])
    try:
        r = tlc.run("ReportChannel_Gen", path, workers=1, simulate=f"num={num}", depth=chunks + 1, seed=seed, timeout=300)
    finally:
        os.unlink(path)
    # the simulator also prints the candidate successors of the last step: keep a bounded, distinct sample
    seen, out = set(), []
    for g in r.gen:
        k = json.dumps(g)
        if k not in seen:
            seen.add(k)
            out.append(g)
    random.Random(seed).shuffle(out)
    return out[:num]


def run(rep, tier, seed):
    rep.assume(
        "what the spec decides: framing, order, exactly-once, counter / time-stamp monotonicity, rejection leaves no trace; "
        "value fidelity of the JSON encoding is compared by the driver (payload identity after the numpy -> number map) "
        "and reported to the spec as equality bits",
        "noise never contains the metric tag; dictionaries have string keys and use lists, not tuples (JSON data model)",
        "captured output is split the way LocalBackend.stdout() does (file.readlines())",
    )
    for (ch, pay, noise) in ([(3, 2, 2)] if tier == "quick" else [(3, 2, 2), (2, 3, 3), (4, 1, 2)]):
        fd, path = tempfile.mkstemp(prefix="ReportChannel_MC_", suffix=".cfg")
        os.close(fd)
        tlc.write_cfg(path, spec="Spec", constants=dict(MaxChunks=ch, MaxPay=pay, MaxNoise=noise),
                      invariants=["ExtractedEqualsReported", "CounterStrictlyIncreasing"])
        try:
            r = tlc.run("ReportChannel_MC", path, workers=16, timeout=1800)
        finally:
            os.unlink(path)
        rep.model(f"ReportChannel_MC[chunks<={ch}, payload<={pay}, noise<={noise}]", r)
        if r.violated:
            rep.violation({"check": "mc", "invariant": r.violated}, {"trace": tlc.short_trace(r, keys=("stream", "reported"))})
    rnd = random.Random(seed * 7 + 1)
    streams = gen_streams(seed * 3 + 1, 300 if tier == "quick" else 3000, 6, 4, 4)
    runs = []
    for s in streams:
        runs.append(run_script(s, rnd))
        # TLC's uniform choice rarely picks the single Rejected step: a second variant gets bad reports inserted
        s2 = list(s)
        for _ in range(rnd.randrange(1, 3)):
            s2.insert(rnd.randrange(len(s2) + 1), {"kind": "bad", "tok": []})
        runs.append(run_script(s2, rnd))
    fd, path = tempfile.mkstemp(prefix="report_runs_", suffix=".ndjson")
    with os.fdopen(fd, "w") as f:
        for r_ in runs:
            f.write(json.dumps({k: v for k, v in r_.items() if k != "text"}) + "\n")
    try:
        r = tlc.run("ReportChannel_Trace", "ReportChannel_Trace.cfg", workers=1, timeout=900, env={"TRACE_FILE": path})
    finally:
        os.unlink(path)
    rep.states += r.distinct
    rep.transitions += r.generated
    got = {int(m.group(1)): set(re.findall(r'"([^"]+)"', m.group(2))) for m in _RE_F.finditer(r.out)}
    if len(got) != len(runs):
        raise RuntimeError(f"ReportChannel_Trace judged {len(got)} of {len(runs)} runs")
    counts = {}
    for i, run_ in enumerate(runs):
        rep.traces += 1
        rep.count_actions(c["kind"] for c in run_["chunks"])
        for f in sorted(got[i + 1]):
            counts[f] = counts.get(f, 0) + 1
            rep.violation({"check": "trace", "flag": f}, {"run": {k: v for k, v in run_.items() if k != "chunks"},
                                                          "chunks": run_["chunks"][:8]})
    rep.replays += len(runs)
    rep.extra["flags_seen_in_traces"] = counts
    rep.sample({"captured_stdout_prefix": runs[len(runs) // 2]["text"][:300]})
