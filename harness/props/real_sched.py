"""Binding 2 of the tuner properties: real schedulers inside the real Tuner.run (filled in below)."""


def campaign(rep, pid, tier, seed, failures=False, checkpoints=False):
    return
