"""Binding 2 of the tuner properties: real schedulers inside the real Tuner.run (scripted poll-type back-end with
free-running workers under a seeded environment policy).  Traces are judged by TunerLoop_Trace."""
import json

from harness import tuner_models as M
from harness.drivers import realsched as R
from harness.props import tuner_common as T


def campaign(rep, pid, tier, seed, failures=False, checkpoints=False):
    flags = set(M.PROP_FLAGS[pid])
    n = 10 if tier == "quick" else 120
    n_gp = 6 if tier == "quick" else 30          # model-based searchers (slower): fewer runs
    traces, meta = [], []
    for ki, kind in enumerate(R.KINDS + R.GP_KINDS):
        for j in range(n if kind in R.KINDS else n_gp):
            s = seed * 100003 + ki * 1009 + j
            nw = 1 + (j % 4)
            p_fail = (0.05 if j % 3 == 0 else 0.0) if (failures or j % 5 == 0) else 0.0
            p_ext = 0.03 if (failures and j % 4 == 1) else 0.0
            delete = checkpoints or j % 2 == 0
            tr, out = R.run(kind, s, nw, started_budget=6 + (j % 5), p_fail=p_fail, p_ext=p_ext, delete_checkpoints=delete,
                            checkpointing=(j % 3 != 1), maxfail=2 + (j % 3), async_sched=(j % 7 != 3), wait=(j % 6 == 5),
                            sjwd=(j % 4 != 2), mode=("max" if j % 2 else "min"))
            tr["id"] = len(traces) + 1
            traces.append(tr)
            end = next((e for e in out["ev"] if e["a"] == "End"), {})
            meta.append({"scheduler": kind, "seed": s, "n_workers": nw, "p_fail": p_fail, "p_ext": p_ext, "delete_checkpoints": delete,
                         "mode": "max" if j % 2 else "min", "end_msg": end.get("msg", "")[:120]})
    counts = T.validate_traces(rep, traces, meta, pid, flags, "real-schedulers")
    rep.replays += len(traces)
    rep.extra.setdefault("real_scheduler_runs", {})["kinds"] = R.KINDS + R.GP_KINDS
    rep.extra["real_scheduler_runs"]["runs"] = len(traces)
    rep.extra["real_scheduler_runs"]["flags_seen"] = counts
    return counts


def campaign_one(rep, pid, tier, seed, kind, n):
    """n more runs of one scheduler kind, checkpoints deleted on stop, both scheduling modes, 1-4 workers."""
    flags = set(M.PROP_FLAGS[pid])
    traces, meta = [], []
    for j in range(n):
        s = seed * 7919 + 31 * j + 5
        nw = 1 + (j % 4)
        tr, out = R.run(kind, s, nw, started_budget=7 + (j % 6), delete_checkpoints=True, checkpointing=True,
                        async_sched=(j % 3 != 2), wait=(j % 5 == 4), sjwd=(j % 4 != 3))
        tr["id"] = len(traces) + 1
        traces.append(tr)
        meta.append({"scheduler": kind, "seed": s, "n_workers": nw, "p_fail": 0.0, "p_ext": 0.0, "delete_checkpoints": True})
    counts = T.validate_traces(rep, traces, meta, pid, flags, f"real-scheduler:{kind}")
    rep.replays += len(traces)
    rep.extra.setdefault("real_scheduler_runs", {})[f"{kind}_runs"] = len(traces)
    rep.extra["real_scheduler_runs"][f"{kind}_flags_seen"] = counts
    return counts


def campaign_early_removal(rep, pid, tier, seed, n):
    """Promotion-type Hyperband with speculative early checkpoint removal explicitly requested (both the scored and the
    baseline callbacks): a paused trial may lose its checkpoint, a running trial never does."""
    flags = set(M.PROP_FLAGS[pid])
    traces, meta = [], []
    variants = [{"max_num_checkpoints": 2, "max_wallclock_time": 1000},
                {"max_num_checkpoints": 1, "max_wallclock_time": 1000, "approx_steps": 5},
                {"max_num_checkpoints": 2, "max_wallclock_time": 1000, "baseline": "random"},
                {"max_num_checkpoints": 1, "max_wallclock_time": 1000, "baseline": "by_level"}]
    kinds = ["hb_promotion", "hb_pasha", "hb_cost_promotion"]
    for j in range(n):
        s = seed * 6007 + 17 * j + 3
        kind, early = kinds[j % len(kinds)], variants[(j // len(kinds)) % len(variants)]
        nw = 1 + (j % 4)
        tr, out = R.run(kind, s, nw, started_budget=8 + (j % 5), delete_checkpoints=True, checkpointing=True,
                        async_sched=(j % 5 != 4), early=early)
        tr["id"] = len(traces) + 1
        traces.append(tr)
        meta.append({"scheduler": kind, "seed": s, "n_workers": nw, "early_checkpoint_removal_kwargs": early,
                     "deleted_paused": sum(1 for e in tr["ev"] if e["a"] == "Delete")})
    counts = T.validate_traces(rep, traces, meta, pid, flags, "real-scheduler:early-removal")
    rep.replays += len(traces)
    rep.extra.setdefault("real_scheduler_runs", {})["early_removal_runs"] = len(traces)
    rep.extra["real_scheduler_runs"]["early_removal_flags_seen"] = counts
    return counts
