"""C20 - a checkpoint exists whenever a trial is resumed or warm-started from it."""
from harness.props import tuner_common as T


def run(rep, tier, seed):
    rep.assume("scripted workers write a checkpoint at every report; the in-memory store logs copy / delete / resume")
    T.model_check(rep, "C20", tier, names=None if tier == "thorough" else ["pause_2t", "wait_done", "exhaust", "crit_evals"])
    T.standard_campaign(rep, "C20", tier, seed, tables=["pause", "pause_nofail", "sync", "wait", "nw1"])
    from harness.props import real_sched
    real_sched.campaign(rep, "C20", tier, seed, checkpoints=True)
