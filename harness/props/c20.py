"""C20 - a checkpoint exists whenever a trial is resumed or warm-started from it."""
from harness.props import tuner_common as T


def run(rep, tier, seed):
    rep.assume("scripted workers write a checkpoint at every report; the in-memory store logs copy / delete / resume",
               "PBT's clone queue is read (never written) by the recorder: one Queue event per entry appended to "
               "_trial_decisions_stack inside on_trial_result")
    T.model_check(rep, "C20", tier, names=None if tier == "thorough" else ["pause_2t", "wait_done", "exhaust", "crit_evals", "pbt_3t", "spec_removal"])
    # known finding F08 at model level: the PBT-type scheduler of the model stops a trial that is queued as clone source
    if T.model_finding_demo(rep, "C20", "R8", "CopySourceExists", base="pbt_3t"):
        rep.violation({"check": "mc-demo", "invariant": "CopySourceExists"}, {})
    T.standard_campaign(rep, "C20", tier, seed, tables=["pause", "pause_nofail", "sync", "wait", "nw1", "pbt", "specrm", "ask"], covers=["pbt3"])
    from harness.props import real_sched
    real_sched.campaign(rep, "C20", tier, seed, checkpoints=True)
    real_sched.campaign_one(rep, "C20", tier, seed, "pbt", n=24 if tier == "quick" else 400)
    real_sched.campaign_early_removal(rep, "C20", tier, seed, n=24 if tier == "quick" else 240)
    # binding 3: real checkpoint directories of the LocalBackend; every process tells whether it found a checkpoint when
    # it started (EvLoaded), which is compared with the monitor's checkpoint store
    from harness.props import local_backend
    local_backend.campaign(rep, "C20", tier, seed)
    # synchronous Hyperband: which paused trials the scheduler declares "never resumed" (deleted by RemoveCheckpointsCallback)
    from harness.props import c05
    rep.extra["synchb_removable_flags"] = c05.campaign_c20(rep, tier, seed)
