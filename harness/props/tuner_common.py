"""Shared campaign for the TunerLoop-decided properties (C01, C02, C12, C13, C20).

(1) TLC, exhaustive: TunerLoop_MC with the property's invariants on every constants table.
(2) TLC, generate:   TunerLoop_Gen behaviours (random walks + BFS transition cover of the final step).
(3) drive + record:  each behaviour is compiled to an environment script and executed by the
                     REAL Tuner.run on scripted collaborators; one event per TunerLoop action.
(4) TLC, validate:   TunerLoop_Trace consumes every recorded trace; raised flags = violated clauses.
"""
import json
import os
import random
import tempfile

from harness import tlc, tuner_models as M
from harness.drivers import tunerloop as D
from harness.validate import validate


def gen_cfg(constants, minlen, sample=None, view=False):
    fd, path = tempfile.mkstemp(prefix="TunerLoop_Gen_", suffix=".cfg")
    os.close(fd)
    c = dict(constants, MinLen=minlen)
    tlc.write_cfg(path, init="GInit", next_="GNext", constants=c,
                  action_constraints=["Emit", "Late"] if sample is None else ["EmitSampled", "Late"],
                  view="View" if view else None)
    return path


GEN_TABLES = {
    # name: (constants, conf for the real run)
    "pause": (dict(M.BASE, NT=3, MaxRep=3, MaxRuns=3, FailB=2, ExtB=1, EmptyExit=True, MayExhaust=True, R3=False, R13=False),
              {"nw": 2, "kind": "pause", "del": True, "maxfail": 1}),
    "pause_nofail": (dict(M.BASE, NT=3, MaxRep=3, MaxRuns=3, FailB=0, ExtB=0, R3=False, R13=False),
                     {"nw": 2, "kind": "pause", "del": True, "maxfail": 1}),
    "stop": (dict(M.BASE, NT=4, Kind="stop", MaxRuns=1, MaxRep=3, FailB=2, ExtB=1, MaxFail=2, R3=False, R13=False),
             {"nw": 2, "kind": "stop", "del": False, "maxfail": 2}),
    "sync": (dict(M.BASE, NT=4, NW=3, Kind="pause", MaxRep=2, MaxRuns=2, Async=False, FailB=1, R3=False, R13=False),
             {"nw": 3, "kind": "pause", "del": True, "maxfail": 1, "async": False}),
    "wait": (dict(M.BASE, NT=3, Kind="pause", MaxRep=2, MaxRuns=2, Wait=True, FailB=1, R3=False, R13=False),
             {"nw": 2, "kind": "pause", "del": True, "maxfail": 1, "wait": True}),
    # the failure limit is exceeded while other trials are still running, and the loop waits for them before it ends
    "wait_fail": (dict(M.BASE, NT=4, Kind="stop", MaxRep=2, MaxRuns=1, Wait=True, FailB=2, MaxFail=0, R3=False, R13=False),
                  {"nw": 2, "kind": "stop", "del": True, "maxfail": 0, "wait": True}),
    "nw1": (dict(M.BASE, NT=3, NW=1, Kind="pause", MaxRep=3, MaxRuns=3, FailB=1, MaxFail=0, R3=False, R13=False),
            {"nw": 1, "kind": "pause", "del": True, "maxfail": 0}),
    # start_jobs_without_delay = False: the number of free workers is asked from the back-end
    "ask": (dict(M.BASE, NT=4, Kind="stop", MaxRep=2, MaxRuns=1, FailB=1, R3=False, R13=False, Sjwd=False),
            {"nw": 2, "kind": "stop", "del": True, "maxfail": 1, "sjwd": False}),
    "ask_pause": (dict(M.BASE, NT=3, Kind="pause", MaxRep=2, MaxRuns=2, FailB=1, R3=False, R13=False, Sjwd=False),
                  {"nw": 2, "kind": "pause", "del": True, "maxfail": 1, "sjwd": False}),
    # speculative early removal of checkpoints of paused trials by a callback at the end of an iteration
    "specrm": (dict(M.BASE, NT=3, Kind="pause", MaxRep=2, MaxRuns=3, FailB=1, R3=False, R13=False, SpecRm=True),
               {"nw": 2, "kind": "pause", "del": True, "maxfail": 1, "spec": True}),
    # ... and stopped jobs keep their worker for a while (status Stopping, as on SageMaker), three workers
    "ask_linger": (dict(M.BASE, NT=5, NW=3, Kind="stop", MaxRep=2, MaxRuns=1, FailB=0, R3=False, R13=False, Sjwd=False, Linger=True),
                   {"nw": 3, "kind": "stop", "del": True, "maxfail": 1, "sjwd": False, "linger": True}),
    # PBT-type scheduler: clone decisions queued in on_trial_result, popped by suggest (R8: see known finding F08)
    "pbt": (dict(M.BASE, NT=4, Kind="pbt", MaxRep=3, MaxRuns=1, FailB=1, R3=False, R13=False, R8=True),
            {"nw": 2, "kind": "pbt", "del": True, "maxfail": 1}),
}


COVER_TABLES = {
    # tiny scopes whose complete final-step transition cover is driven through the real loop
    "pause1": (dict(M.BASE, NT=1, NW=1, MaxRep=2, MaxRuns=3, FailB=1, R3=False, R13=False),
               {"nw": 1, "kind": "pause", "del": True, "maxfail": 1}),
    "pause2": (dict(M.BASE, NT=2, NW=2, MaxRep=1, MaxRuns=2, FailB=1, R3=False, R13=False),
               {"nw": 2, "kind": "pause", "del": True, "maxfail": 1}),
    "stop2": (dict(M.BASE, NT=2, NW=2, Kind="stop", MaxRep=2, MaxRuns=1, FailB=1, ExtB=1, MaxFail=0, EmptyExit=True,
                   R3=False, R13=False),
              {"nw": 2, "kind": "stop", "del": False, "maxfail": 0}),
    "ask3": (dict(M.BASE, NT=3, NW=2, Kind="stop", MaxRep=1, MaxRuns=1, FailB=0, R3=False, R13=False, Sjwd=False),
             {"nw": 2, "kind": "stop", "del": True, "maxfail": 1, "sjwd": False}),
    "pbt3": (dict(M.BASE, NT=3, NW=2, Kind="pbt", MaxRep=2, MaxRuns=1, FailB=0, R3=False, R13=False, R8=True),
             {"nw": 2, "kind": "pbt", "del": True, "maxfail": 1}),
    "pause2x2": (dict(M.BASE, NT=2, NW=2, MaxRep=2, MaxRuns=2, FailB=1, R3=False, R13=False),
                 {"nw": 2, "kind": "pause", "del": True, "maxfail": 1}),
}


def generate(name, seed, num, minlen=60, depth=250):
    constants, conf = GEN_TABLES[name]
    path = gen_cfg(constants, minlen)
    try:
        r = tlc.run("TunerLoop_Gen", path, workers=1, simulate=f"num={num}", depth=depth, seed=seed, timeout=600)
    finally:
        os.unlink(path)
    return r.gen, conf


def cover(name, max_behaviours, seed):
    """BFS transition cover of the final step: one (shortest) behaviour per transition into pc = done."""
    small, conf = COVER_TABLES[name]
    path = gen_cfg(small, 0, view=True)
    try:
        r = tlc.run("TunerLoop_Gen", path, workers=1, timeout=900)
    finally:
        os.unlink(path)
    gen = r.gen
    rnd = random.Random(seed)
    if len(gen) > max_behaviours:
        gen = rnd.sample(gen, max_behaviours)
    return gen, conf, r


def drive_and_validate(rep, behaviours_with_conf, pid, flags_of_interest, tag):
    """behaviours_with_conf: list of (hist, conf).  Returns flag counter."""
    traces, runs = [], []
    for hist, conf in behaviours_with_conf:
        script = D.Script.from_hist(hist)
        run = D.run_tuner(conf, script)
        runs.append((script, run))
        traces.append(D.to_trace(run, len(traces) + 1))
    return validate_traces(rep, traces, [s.to_json() for s, _ in runs], pid, flags_of_interest, tag)


def validate_traces(rep, traces, scripts, pid, flags_of_interest, tag):
    vs = validate("TunerLoop_Trace", "TunerLoop_Trace.cfg", traces)
    st = validate.last_stats
    rep.states += st["distinct"]
    rep.transitions += st["generated"]
    counts = {}
    for k, v in vs.items():
        tr = traces[k]
        if not v.consumed:
            # an environment guard failed: the harness itself is inconsistent -> machinery failure
            raise RuntimeError(f"[{tag}] trace {k} not consumed at event {v.maxl}/{v.need}: "
                               f"{tr['ev'][v.maxl - 1] if v.maxl - 1 < len(tr['ev']) else None}")
        rep.traces += 1
        rep.count_actions(e["a"] for e in tr["ev"])
        for f in sorted(v.flags):
            counts[f] = counts.get(f, 0) + 1
            if f in flags_of_interest:
                sig = {"check": "trace", "flag": f, "clause": M.FLAG_INV.get(f, f)}
                det = {"campaign": tag, "conf": tr["conf"], "events": tr["ev"], "all_flags": sorted(v.flags)}
                if scripts and isinstance(scripts[k], dict) and "scheduler" in scripts[k]:
                    det["run"] = scripts[k]            # a real-scheduler run: (scheduler, seed, n_workers, ...)
                    sig["scheduler"] = scripts[k]["scheduler"]
                    if f == "unexpected_exception" and scripts[k].get("end_msg"):
                        sig["exc"] = scripts[k]["end_msg"].split("(")[0]
                        sig["msg"] = scripts[k]["end_msg"][:60]
                    if "resume_failed_run" in v.flags:
                        # the scheduler resumed a FAILED trial: everything the monitor reports for this run afterwards
                        # follows from that illegal resume (known finding F09 when the scheduler is synchronous Hyperband)
                        sig["after_resume_of_failed"] = True
                else:
                    det["script"] = scripts[k] if scripts else None
                rep.violation(sig, det)
    if traces:
        rep.sample({"campaign": tag, "trace_events": [json.dumps(e) for e in traces[len(traces) // 2]["ev"][:40]]})
    return counts


def model_check(rep, pid, tier, names=None):
    invs = M.ALL_INVARIANTS[pid]
    for name, c in M.mc_configs(tier).items():
        if names is not None and name not in names:
            continue
        path = M.write_mc_cfg(c, invs)
        try:
            r = tlc.run("TunerLoop_MC", path, workers=16, timeout=3000, coverage=False)
        finally:
            os.unlink(path)
        rep.model(f"TunerLoop_MC[{name}]", r, constants=c)
        if r.violated:
            rep.violation({"check": "mc", "invariant": r.violated, "config": name},
                          {"trace": tlc.short_trace(r, keys=("flags", "wst", "life", "ps", "em", "dl", "tss"))})


def model_finding_demo(rep, pid, restriction, invariant, base="pause_2t"):
    """Run the model WITHOUT the environment restriction that excludes a known finding: the
    model must reproduce the finding (a model-level demonstration; verdicts come from traces)."""
    c = dict(M.mc_configs("quick")[base])
    c[restriction] = False
    path = M.write_mc_cfg(c, [invariant])
    try:
        r = tlc.run("TunerLoop_MC", path, workers=16, timeout=900)
    finally:
        os.unlink(path)
    rep.extra.setdefault("model_level_finding_demos", []).append(
        {"restriction_lifted": restriction, "invariant": invariant, "violated": r.violated,
         "counterexample_actions": tlc.short_trace(r)[:-1] if r.violated else None})
    return r.violated


def standard_campaign(rep, pid, tier, seed, tables=None, n_sim=None, covers=()):
    flags = set(M.PROP_FLAGS[pid])
    tables = tables or list(GEN_TABLES)
    n_sim = n_sim or (150 if tier == "quick" else 1500)
    total = {}
    for ti, name in enumerate(tables):
        gen, conf = generate(name, seed * 100 + ti + 1, n_sim)
        c = drive_and_validate(rep, [(g, conf) for g in gen], pid, flags, f"simulate:{name}")
        for k, v in c.items():
            total[k] = total.get(k, 0) + v
        rep.replays += len(gen)
    for name in (["pause1", "pause2", "stop2"] + [c for c in covers] if tier == "quick" else list(COVER_TABLES)):
        gen, conf, r = cover(name, 500 if tier == "quick" else 5000, seed)
        rep.model(f"TunerLoop_Gen[{name}, cover]", r)
        c = drive_and_validate(rep, [(g, conf) for g in gen], pid, flags, f"cover:{name}")
        for k, v in c.items():
            total[k] = total.get(k, 0) + v
        rep.replays += len(gen)
    rep.extra["flags_seen_in_traces"] = total
    return total
