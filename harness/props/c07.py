"""C07 - domains: samples and decoded vectors are members; encoding round-trips (restricted claim, DESIGN.md section 6)."""
import json
import math
import os
import re
import tempfile
from fractions import Fraction

import numpy as np

from harness import tlc

_RE_F = re.compile(r'<<\s*"@@FLG@@",\s*(\d+),\s*\{([^{}]*)\}\s*>>')
CATS = ["red", "green", "blue", "pink"]
ORDS = [1, 2, 5, 9]


def build(d):
    """python domain + its value list (None for continuous) from the parameters TLC enumerated."""
    from syne_tune import config_space as cs
    k, l, u, n, q = d["kind"], d["l"], d["u"], d["n"], d["q"]
    if k == "randint":
        return cs.randint(l, u), list(range(l, u + 1))
    if k == "lograndint":
        return cs.lograndint(l, u), list(range(l, u + 1))
    if k == "qrandint":
        # membership of a quantised integer domain = its integer bounds (the library's is_valid); the quantum concerns sampling
        return cs.qrandint(l, u, q), list(range(l, u + 1))
    if k == "choice":
        return cs.choice(CATS[:n]), CATS[:n]
    if k == "ordinal":
        return cs.ordinal(ORDS[:n], kind="equal"), ORDS[:n]
    if k == "ordinal_nn":
        return cs.ordinal(ORDS[:n], kind="nn"), ORDS[:n]
    if k == "ordinal_nnlog":
        return cs.ordinal(ORDS[:n], kind="nn-log"), ORDS[:n]
    if k in ("finrange", "finrange_int", "logfinrange", "logfinrange_int"):
        log, ci = k.startswith("log"), k.endswith("_int")
        lo, hi = float(l), float(max(u, l) if n > 1 else l)
        f = cs.logfinrange if log else cs.finrange
        dom = f(lo, hi, n, cast_int=ci)
        # the value list defined by the constructor arguments, computed independently
        vals = []
        for i in range(n):
            if n == 1:
                y = lo
            elif log:
                y = math.exp(math.log(lo) + i * (math.log(hi) - math.log(lo)) / (n - 1))
            else:
                y = lo + i * (hi - lo) / (n - 1)
            y = min(max(y, lo), hi)
            vals.append(int(np.rint(y)) if ci else float(y))
        return dom, vals
    if k == "uniform":
        return cs.uniform(float(l), float(u)), None
    if k == "loguniform":
        return cs.loguniform(float(l), float(u)), None
    if k == "reverseloguniform":
        return cs.reverseloguniform(0.125 * l, 0.5 + 0.25 * (u - 1)), None
    if k == "quniform":
        return cs.quniform(float(l), float(u), 0.25), None
    raise ValueError(k)


def project(d, dom, vals, v):
    """value -> [idx, typeok, lo_ok, hi_ok] with exact comparisons."""
    want = dom.value_type
    typeok = (isinstance(v, want) or (want is float and isinstance(v, (float, np.floating)))
              or (want is int and isinstance(v, (int, np.integer)))) and not isinstance(v, bool)
    if vals is not None:
        idx = -1
        for i, x in enumerate(vals):
            if (isinstance(x, float) and isinstance(v, (float, np.floating)) and abs(float(v) - x) <= 1e-9 * max(1.0, abs(x))) or v == x:
                idx = i
                break
        return {"idx": idx, "typeok": bool(typeok), "lo_ok": True, "hi_ok": True}
    try:
        fv = Fraction(float(v))
        lo_ok, hi_ok = fv >= Fraction(float(dom.lower)), fv <= Fraction(float(dom.upper))
    except (TypeError, ValueError):
        lo_ok = hi_ok = False
    return {"idx": 0, "typeok": bool(typeok), "lo_ok": bool(lo_ok), "hi_ok": bool(hi_ok)}


def calls_for(d, grid, rnd_seed):
    from syne_tune import config_space as cs
    from syne_tune.optimizer.schedulers.searchers.utils import make_hyperparameter_ranges
    from syne_tune.config_space import config_space_to_json_dict, config_space_from_json_dict
    out = []

    def guard(fn, where):
        try:
            fn()
        except Exception as exc:      # the code under test raised on a legal input
            out.append({"f": "raised", "d": d, "exc": repr(exc)[:200], "where": where})
    try:
        dom, vals = build(d)
        space = {"h": dom, "g": cs.choice(["a", "b", "c"]), "const": 3}
        hpr = make_hyperparameter_ranges(space)
    except Exception as exc:          # a legal constructor call / space raised
        return [{"f": "raised", "d": d, "exc": repr(exc)[:200], "where": "construct"}]
    rs = np.random.RandomState(rnd_seed)

    def samples():
        for v in dom.sample(size=6, random_state=rs) if True else []:
            out.append({"f": "sample", "d": d, "v": project(d, dom, vals, v), "raw": repr(v)})
    guard(samples, "sample")

    def casts():
        members = vals if vals is not None else [float(dom.lower), float(dom.upper), 0.5 * (float(dom.lower) + float(dom.upper))]
        for v in members:
            out.append({"f": "cast", "d": d, "v": project(d, dom, vals, dom.cast(v)), "raw": repr(v)})
    guard(casts, "cast")

    def decodes(h, hasactive, alo, ahi, tag):
        size = h.ndarray_size
        pts = [Fraction(k, grid) for k in range(grid + 1)]
        nh = len(vals) if vals is not None else 0
        pts += [Fraction(2 * k + 1, 2 * nh) for k in range(nh)] if nh else []     # where rounding flips
        for p in pts:
            x = np.full((size,), float(p))
            cfg = h.from_ndarray(x)
            out.append({"f": "decode", "d": d, "v": project(d, dom, vals, cfg["h"]), "hasactive": hasactive, "alo": alo, "ahi": ahi,
                        "x": str(p), "tag": tag})
        for _ in range(4):
            x = rs.rand(size)
            x[rs.randint(size)] = float(rs.randint(2))      # a face of the cube
            cfg = h.from_ndarray(x)
            out.append({"f": "decode", "d": d, "v": project(d, dom, vals, cfg["h"]), "hasactive": hasactive, "alo": alo, "ahi": ahi,
                        "x": "random", "tag": tag})
    guard(lambda: decodes(hpr, False, 0, 0, "plain"), "decode")

    def encodes():
        members = vals if vals is not None else [float(v) for v in dom.sample(size=5, random_state=rs)] + [float(dom.lower), float(dom.upper)]
        for v in members:
            cfg = {"h": v, "g": "b", "const": 3}
            x = hpr.to_ndarray(cfg)
            back = hpr.from_ndarray(x)["h"]
            relok = True
            if vals is None:
                relok = abs(float(back) - float(v)) <= 1e-7 * max(abs(float(v)), 1e-300)
            out.append({"f": "encode", "d": d, "v": project(d, dom, vals, v), "back": project(d, dom, vals, back), "len": int(x.size),
                        "advertised": int(hpr.ndarray_size), "incube": bool(np.all(x >= 0.0) and np.all(x <= 1.0)), "relok": bool(relok)})
    guard(encodes, "encode")

    def active():
        if vals is None or len(vals) < 2 or d["kind"].startswith("ordinal_nn"):
            return
        k = d["kind"]
        # two sub-ranges: without the first value, and without the last one (the latter has internal lower bound 0)
        for (alo, ahi) in ((1, len(vals) - 1), (0, len(vals) - 2)):
            if k in ("randint", "lograndint"):
                adom = (cs.randint if k == "randint" else cs.lograndint)(vals[alo], vals[ahi])
            elif k == "choice":
                adom = cs.choice(vals[alo:ahi + 1])
            elif k == "ordinal":
                adom = cs.ordinal(vals[alo:ahi + 1], kind="equal")
            else:
                return
            h2 = make_hyperparameter_ranges(space, active_config_space={"h": adom})
            # search is restricted to the active range through the encoded bounds: every vector inside
            # get_ndarray_bounds() and every random_config must decode into the active sub-range
            bounds = h2.get_ndarray_bounds()
            b0, b1 = h2.encoded_ranges["h"]

            def tag_of(x, default):
                # the block of h in the encoding: a tie among its coordinates is the known one-hot arg-max case
                blk = x[b0:b1]
                return "active-one-hot-tie" if (b1 - b0 > 1 and len(set(blk.tolist())) == 1) else default
            pts = [Fraction(j, grid) for j in range(grid + 1)]
            for p in pts:
                x = np.array([lo + float(p) * (hi - lo) for (lo, hi) in bounds])
                cfg = h2.from_ndarray(x)
                out.append({"f": "decode", "d": d, "v": project(d, dom, vals, cfg["h"]), "hasactive": True, "alo": alo, "ahi": ahi,
                            "x": str(p), "tag": tag_of(x, "active-grid")})
                x = np.array([lo + rs.rand() * (hi - lo) for (lo, hi) in bounds])       # general position inside the bounds
                cfg = h2.from_ndarray(x)
                out.append({"f": "decode", "d": d, "v": project(d, dom, vals, cfg["h"]), "hasactive": True, "alo": alo, "ahi": ahi,
                            "x": "random-in-bounds", "tag": tag_of(x, "active-bounds")})
            # the corners of the search box
            for corner in range(min(2 ** len(bounds), 16)):
                x = np.array([(hi if (corner >> j) & 1 else lo) for j, (lo, hi) in enumerate(bounds)])
                cfg = h2.from_ndarray(x)
                tag = tag_of(x, "active-corner")
                out.append({"f": "decode", "d": d, "v": project(d, dom, vals, cfg["h"]), "hasactive": True, "alo": alo, "ahi": ahi,
                            "x": f"corner{corner}", "tag": tag})
            for _ in range(6):
                cfg = h2.random_config(rs)
                out.append({"f": "decode", "d": d, "v": project(d, dom, vals, cfg["h"]), "hasactive": True, "alo": alo, "ahi": ahi,
                            "x": "random_config", "tag": "active-random"})
    guard(active, "active")

    def jsonrt():
        back = config_space_from_json_dict(config_space_to_json_dict(space))
        equal = set(back) == set(space) and all(back[k] == space[k] for k in space)
        h2 = make_hyperparameter_ranges(back)
        same = True
        members = vals if vals is not None else [float(dom.lower), float(dom.upper)]
        for v in members[:4]:
            cfg = {"h": v, "g": "c", "const": 3}
            same = same and np.array_equal(hpr.to_ndarray(cfg), h2.to_ndarray(cfg))
        out.append({"f": "json", "d": d, "equal": bool(equal), "sameenc": bool(same)})
    guard(jsonrt, "json")
    return out


def run(rep, tier, seed):
    rep.assume(
        "restricted claim: the specification decides membership / round trip / length / active range / JSON equality on values "
        "logged as indices into the value list the constructor arguments define (discrete domains) or as exact comparison "
        "bits against the bounds (continuous domains); the real axis is not explored",
        "parameters enumerated by TLC: bounds 0..3 (1..3 for log domains), sizes 1..3, incl. degenerate lower == upper / one "
        "category / size 1; cube points k/N, the rounding flip points (2k+1)/(2 size), random points and faces",
        "quantised samplers: qrandint(l, u, 2) with l a multiple of 2, quniform(l, u, 0.25)",
    )
    maxu, maxn, grid = (3, 3, 6) if tier == "quick" else (4, 4, 12)
    fd, path = tempfile.mkstemp(prefix="Domains_MC_", suffix=".cfg")
    os.close(fd)
    tlc.write_cfg(path, spec="Spec", constants=dict(MaxU=maxu, MaxN=maxn, GridN=grid, DegMax=16 if tier == "quick" else 40))
    try:
        r = tlc.run("Domains_MC", path, workers=1, timeout=600)
    finally:
        os.unlink(path)
    rep.model(f"Domains_MC[MaxU={maxu}, MaxN={maxn}, GridN={grid}] (case enumeration + definitional ASSUME)", r)
    calls = []
    for i, row in enumerate(r.gen):
        for s in range(1 if tier == "quick" else 4):
            calls.extend(calls_for(row["d"], row["grid"], seed * 1000 + i * 7 + s))
    rep.extra["domain_instances"] = len(r.gen)
    out = []
    for b0 in range(0, len(calls), 5000):
        chunk = calls[b0:b0 + 5000]
        fd, path = tempfile.mkstemp(prefix="domain_calls_", suffix=".ndjson")
        with os.fdopen(fd, "w") as f:
            for c in chunk:
                f.write(json.dumps({k: v for k, v in c.items() if k not in ("raw", "exc", "x", "tag", "where")}) + "\n")
        try:
            res = tlc.run("Domains_Trace", "Domains_Trace.cfg", workers=1, timeout=900, env={"TRACE_FILE": path})
        finally:
            os.unlink(path)
        rep.states += res.distinct
        rep.transitions += res.generated
        got = {int(m.group(1)): set(re.findall(r'"([^"]+)"', m.group(2))) for m in _RE_F.finditer(res.out)}
        if len(got) != len(chunk):
            raise RuntimeError(f"Domains_Trace judged {len(got)} of {len(chunk)} calls")
        out.extend(got[k + 1] for k in range(len(chunk)))
    counts = {}
    for c, fl in zip(calls, out):
        rep.traces += 1
        rep.count_actions([c["f"]])
        for f in sorted(fl):
            counts[f] = counts.get(f, 0) + 1
            sig = {"check": "trace", "flag": f, "kind": c["d"]["kind"]}
            if f == "raised":
                sig["where"] = c.get("where", "")
            if f == "decoded_outside_active_range":
                sig["case"] = c.get("tag", "")
            rep.violation(sig, {"call": c})
    rep.replays += len(calls)
    rep.extra["flags_seen"] = counts
    rep.sample({"call": calls[len(calls) // 3]})
