"""C03 - stopping-type asynchronous Hyperband decides by the documented quantile rule."""
import numpy as np

from harness import tlc
from harness import asynchb_models as A
from harness.props import asynchb_common as C


def quantile_obligations(rep, tier):
    """Quantile_MC: Rung.quantile's algorithm = numpy definition (ASSUMEs), then every enumerated row is
    replayed into the REAL Rung.quantile and the spec's NumpyQuantile is cross-checked against numpy itself."""
    from syne_tune.optimizer.schedulers.hyperband_stopping import Rung, RungEntry
    r = tlc.run("Quantile_MC", "Quantile_MC.cfg", workers=1, timeout=600)
    rep.model("Quantile_MC (ASSUME Q1, Q2 over all lists <= 5 over 4 values, q = a/b, b <= 6)", r)
    if r.violated:
        rep.violation({"check": "mc", "invariant": r.violated}, {})
    bad = 0
    for row in r.gen:
        q = row["qn"] / row["qd"]
        rung = Rung(level=1, prom_quant=q, mode="min" if row["min"] else "max",
                    data=[RungEntry(str(i), float(v)) for i, v in enumerate(row["d"])])
        got = rung.quantile()
        want = row["num"] / row["den"]
        ref = float(np.quantile(np.array(row["d"], dtype=float), q if row["min"] else 1 - q))
        if abs(ref - want) > 1e-9:
            raise RuntimeError(f"spec's NumpyQuantile disagrees with numpy.quantile on {row}: {want} vs {ref}")
        if got is None or abs(got - want) > 1e-9:
            bad += 1
            rep.violation({"check": "replay", "flag": "quantile_value"}, {"row": row, "got": got, "want": want})
    rep.replays += len(r.gen)
    rep.extra["quantile_rows_replayed"] = len(r.gen)
    rep.sample({"quantile_row": r.gen[len(r.gen) // 2]})


def tables(tier):
    b = A.base
    t = {
        "stop_min": b(), "stop_max": b(IsMin=False),
        "stop_2br_shared": b(NBr=2), "stop_2br_perbr": b(NBr=2, PerBr=True),
        "stop_13_9": b(LevelsC={1, 3}, MaxT=5, Vals={0, 1, 2, 3}, NT=3),
        "stop_23_5": b(LevelsC={2, 3}, MaxT=5, IsMin=False),
        "rush": b(Type="rush_stopping", NThr=1), "rush_max": b(Type="rush_stopping", NThr=2, IsMin=False),
    }
    if tier == "thorough":
        t["stop_4t"] = b(NT=4, Vals={0, 1, 2, 3}, MaxRun=3)
        t["stop_124_8"] = b(LevelsC={1, 2, 4}, MaxT=8, NT=3, Vals={0, 1, 2})
        t["stop_3br"] = b(LevelsC={1, 2, 4}, MaxT=5, NBr=3, NT=3, Vals={0, 1})
    return t


def run(rep, tier, seed):
    rep.assume(
        "metric values are integer-valued floats; a metric equal to the exact cutoff may go either way (tie)",
        "scripts report every resource level consecutively from 1",
        "bracket sampling of the real scheduler is logged, not dictated",
    )
    quantile_obligations(rep, tier)
    C.campaign(rep, tier, seed, tables(tier), A.INV_C03, set(A.FLAGS_C03))
