"""C14 - multi-fidelity surrogate data: each observation once, only live pending entries."""
from harness import asynchb_models as A
from harness.props import asynchb_common as C


def tables(tier):
    b = A.base
    t = {
        "stop_all": b(SD="all", Faults=True, Vals={0, 1}),
        "stop_rungs_max": b(SD="rungs", Faults=True, IsMin=False, Vals={0, 1}),
        "stop_ral": b(SD="rungs_and_last", Vals={0, 1, 2}),
        "stop_2br_rungs": b(NBr=2, SD="rungs", Vals={0, 1}),
        "promo_all_myopic": b(Type="promotion", SD="all", Myopic=True, MRA=True, Faults=True, Vals={0, 1}),
        "promo_rungs_nockpt": b(Type="promotion", SD="rungs", Ckpt=False, Vals={0, 1}),
        "promo_ral_max": b(Type="promotion", SD="rungs_and_last", MRA=True, IsMin=False, Vals={0, 1, 2}),
        "promo_all_nockpt": b(Type="promotion", SD="all", Ckpt=False, Faults=True, Vals={0, 1}, NT=3),
        # scripts that end on their own before / between rung levels (grace period 2)
        "stop_rungs_g2_completes": b(LevelsC={2, 3}, MaxT=5, SD="rungs", Completes=True, Vals={0, 1}),
        "promo_rungs_g2_completes": b(Type="promotion", LevelsC={2, 3}, MaxT=5, SD="rungs", MRA=False, Completes=True, Vals={0, 1}),
        "stop_all_completes": b(SD="all", Completes=True, Faults=True, Vals={0, 1}),
    }
    if tier == "thorough":
        t["promo_all_2br"] = b(Type="promotion", SD="all", NBr=2, PerBr=True, MRA=True, Faults=True, Vals={0, 1})
        t["stop_all_4t"] = b(SD="all", Faults=True, NT=4, MaxRun=3, Vals={0, 1})
    return t


def run(rep, tier, seed):
    rep.assume(
        "HyperbandScheduler(searcher='bayesopt') with model fitting switched off by construction (num_init_random larger "
        "than any history), so get_config stays in its random phase; the data set is the public "
        "searcher.state_transformer.state projected after EVERY call",
        "observation values must be held in the minimisation convention (mode 'max': a decreasing map of the library, 1 - x or -x; "
        "the check decides this from the scheduler's mode, not from what the searcher believes) and are compared as integers",
        "policy 'rungs_and_last': the rung levels kept are the milestones the trial reached in its own bracket",
        "the HyperTune searcher is driven on the same schedules as the GP searcher (same projection); DyHPO "
        "(type='dyhpo', searcher='dyhpo', data of the wrapped GP searcher) is driven on the promotion-type schedules: its "
        "choice of whom to promote is not judged here (C04 does not cover it), only the data-set clauses",
    )
    # known finding F19 at model level: with completions the strict clause ("... and no others") is violated by the
    # transcription of on_trial_complete as well
    r = A.run_mc(tables(tier)["stop_rungs_g2_completes"], ["ObsLevelsStrict"])
    rep.extra.setdefault("model_level_finding_demos", []).append({"invariant": "ObsLevelsStrict", "violated": r.violated})
    if r.violated:
        rep.violation({"check": "mc-demo", "invariant": "ObsLevelsStrict"}, {})
    ht = [{"searcher": "hypertune"}]
    dy = [{"searcher": "dyhpo", "sched_type": "dyhpo"}]
    variants = {n: ht for n in ("stop_all", "stop_rungs_max", "stop_ral", "stop_2br_rungs", "stop_all_completes")}
    variants.update({n: ht + dy for n in ("promo_all_myopic", "promo_rungs_nockpt", "promo_ral_max", "promo_rungs_g2_completes")})
    variants["promo_all_nockpt"] = dy
    C.campaign(rep, tier, seed, tables(tier), A.INV_C14, set(A.FLAGS_C14), variants=variants)
