"""C19 - multi-objective ranking is Pareto-consistent and MOASHA follows it."""
import json
import os
import re
import tempfile

import numpy as np

from harness import tlc

_RE_F = re.compile(r'<<\s*"@@FLG@@",\s*(\d+),\s*\{([^{}]*)\}\s*>>')


def validate_calls(rep, calls, tag):
    """calls -> Pareto_Trace (TLC decides every call); returns list of flag sets."""
    out = []
    for b0 in range(0, len(calls), 4000):
        chunk = calls[b0:b0 + 4000]
        fd, path = tempfile.mkstemp(prefix="pareto_calls_", suffix=".ndjson")
        with os.fdopen(fd, "w") as f:
            for c in chunk:
                f.write(json.dumps(c) + "\n")
        try:
            r = tlc.run("Pareto_Trace", "Pareto_Trace.cfg", workers=1, timeout=900, env={"TRACE_FILE": path})
        finally:
            os.unlink(path)
        rep.states += r.distinct
        rep.transitions += r.generated
        got = {int(m.group(1)): set(re.findall(r'"([^"]+)"', m.group(2))) for m in _RE_F.finditer(r.out)}
        if len(got) != len(chunk):
            raise RuntimeError(f"[{tag}] Pareto_Trace judged {len(got)} of {len(chunk)} calls")
        out.extend(got[k + 1] for k in range(len(chunk)))
    for c, fl in zip(calls, out):
        rep.traces += 1
        rep.count_actions([c["f"]])
        for f in sorted(fl):
            rep.violation({"check": "trace", "flag": f}, {"campaign": tag, "call": c})
    return out


def pareto_rows(rep, n, d, vals):
    fd, path = tempfile.mkstemp(prefix="Pareto_MC_", suffix=".cfg")
    os.close(fd)
    tlc.write_cfg(path, spec="Spec", constants=dict(N=n, D=d, Vals=set(vals)))
    try:
        r = tlc.run("Pareto_MC", path, workers=1, timeout=900)
    finally:
        os.unlink(path)
    rep.model(f"Pareto_MC[N={n}, D={d}, Vals={sorted(vals)}] (definitional ASSUMEs + row generation)", r)
    if r.violated:
        rep.violation({"check": "mc", "invariant": r.violated}, {})
    return r.gen


def pareto_campaign(rep, tier, seed):
    from syne_tune.optimizer.schedulers.multiobjective.non_dominated_priority import pareto_efficient, nondominated_sort
    scopes = [(2, 2, (0, 1, 2)), (3, 2, (0, 1, 2)), (3, 3, (0, 1)), (4, 2, (0, 1))]
    if tier == "thorough":
        scopes += [(4, 2, (0, 1, 2)), (4, 3, (0, 1)), (3, 1, (0, 1, 2)), (5, 2, (0, 1))]
    calls = []
    for (n, d, vals) in scopes:
        rows = pareto_rows(rep, n, d, vals)
        for row in rows:
            X = np.array(row["X"], dtype=float)
            mask = pareto_efficient(X)
            # exact replay: the mask TLC computed is the expected one; the call is also judged by Pareto_Trace
            if [bool(b) for b in mask] != row["mask"]:
                rep.violation({"check": "replay", "flag": "pareto_mask"}, {"X": row["X"], "got": [bool(b) for b in mask], "want": row["mask"]})
            rep.replays += 1
            calls.append({"f": "pareto_efficient", "X": row["X"], "mask": [bool(b) for b in mask]})
            for dim in range(d):
                for maxitems in (0, 1, 2, n):
                    order = nondominated_sort(X, dim=dim, max_items=None if maxitems == 0 else maxitems)
                    calls.append({"f": "nondominated_sort", "X": row["X"], "dim": dim, "maxitems": maxitems,
                                  "order": [int(i) + 1 for i in order]})
    if tier == "quick" and len(calls) > 6000:
        import random
        rnd = random.Random(seed)
        keep = [c for c in calls if c["f"] == "pareto_efficient"]
        rest = [c for c in calls if c["f"] != "pareto_efficient"]
        calls = keep[:2500] + rnd.sample(rest, 3500)
    validate_calls(rep, calls, "pareto")
    rep.sample({"campaign": "pareto", "call": calls[len(calls) // 2]})


def moasha_schedules(seed, num, genlen, ntrials, vals, dim, maxskip=1):
    fd, path = tempfile.mkstemp(prefix="MOASHA_Gen_", suffix=".cfg")
    os.close(fd)
    tlc.write_cfg(path, spec="Spec", constants=dict(NTrials=ntrials, Vals=set(vals), Dim=dim, GenLen=genlen, MaxSkip=maxskip),
                  action_constraints=["Emit"], constraints=["Bound"])
    try:
        r = tlc.run("MOASHA_Gen", path, workers=1, simulate=f"num={num}", depth=genlen + 2, seed=seed, timeout=300)
    finally:
        os.unlink(path)
    seen, out = set(), []
    for g in r.gen:
        k = json.dumps(g)
        if k not in seen:
            seen.add(k)
            out.append(g)
    if maxskip > 1:
        # TLC's uniform choice among successors rarely picks one of the few Complete steps: every fifth event of a
        # sparse-reporter schedule is turned into the completion of the trial that was to report
        out = [[({"a": "Complete", "t": h["t"]} if (i % 5 == 4 and h["a"] == "Report") else h) for i, h in enumerate(g)] for g in out]
    return out


def moasha_episode(sched_conf, schedule, rng_seed):
    from datetime import datetime
    from fractions import Fraction
    from syne_tune.backend.trial_status import Trial
    from syne_tune.config_space import uniform
    from syne_tune.optimizer.schedulers.multiobjective import MOASHA
    import contextlib, io
    np.random.seed(rng_seed)
    dim = sched_conf["dim"]
    metrics = [f"m{i}" for i in range(dim)]
    extra = {}
    if sched_conf.get("prio") is not None:
        # a scalar priority (ties are frequent): the objective of one fixed dimension
        from syne_tune.optimizer.schedulers.multiobjective.multiobjective_priority import FixedObjectivePriority
        extra["multiobjective_priority"] = FixedObjectivePriority(dim=sched_conf["prio"])
    sched = MOASHA({"x": uniform(0, 1)}, metrics=metrics, mode=sched_conf["mode"], time_attr="epoch",
                   max_t=sched_conf["max_t"], grace_period=sched_conf["grace"], reduction_factor=sched_conf["rf"],
                   brackets=sched_conf["brackets"], **extra)
    modes = sched_conf["mode"] if isinstance(sched_conf["mode"], list) else [sched_conf["mode"]] * dim
    sign = [1 if m == "min" else -1 for m in modes]
    rf = Fraction(sched_conf["rf"]).limit_denominator(100)
    calls, it, alive, trials, mine, who = [], {}, {}, {}, {}, {}
    last = {}

    def record(t, bidx, bracket, it_, mapped):
        """The rung a report (or the completion) of trial t at iteration it_ is recorded at: the highest milestone of its
        bracket <= it_ at which t is not recorded yet; tracked HERE, the scheduler's own bookkeeping is not trusted."""
        for milestone, _ in bracket._rungs:           # descending
            if it_ >= milestone and t not in who.get((bidx, milestone), set()):
                who.setdefault((bidx, milestone), set()).add(t)
                prev = list(mine.get((bidx, milestone), []))
                mine.setdefault((bidx, milestone), []).append(mapped)
                return milestone, prev
        return None

    for h in schedule:
        t = h["t"]
        if h["a"] == "Complete":
            if t in trials and alive.get(t) and t in last:
                bracket = sched._trial_info[t]
                bidx = next(i for i, b in enumerate(sched._brackets) if b is bracket)
                res, mapped = last[t]
                sched.on_trial_complete(trials[t], res)
                record(t, bidx, bracket, res["epoch"], mapped)
                alive[t] = False
            continue
        if t not in trials:
            if t != len(trials):
                continue          # trial ids are issued in sequence
            trials[t] = Trial(trial_id=t, config={"x": 0.5}, creation_time=datetime.now())
            with contextlib.redirect_stdout(io.StringIO()):
                sched.on_trial_add(trials[t])
            it[t], alive[t] = 0, True
        if not alive[t]:
            continue
        it[t] = min(it[t] + int(h.get("skip", 1)), sched_conf["max_t"])
        bracket = sched._trial_info[t]
        bidx = next(i for i, b in enumerate(sched._brackets) if b is bracket)
        vec = [int(x) for x in h["v"]]
        res = {"epoch": it[t]}
        res.update({m: float(v) for m, v in zip(metrics, vec)})
        mapped = [s_ * v for s_, v in zip(sign, vec)]
        rung = None if it[t] >= sched_conf["max_t"] else record(t, bidx, bracket, it[t], mapped)
        d = sched.on_trial_result(trials[t], dict(res))
        last[t] = (res, mapped)
        if it[t] >= sched_conf["max_t"]:
            calls.append({"f": "moasha_max", "d": d})
        elif rung is None:
            calls.append({"f": "moasha_off", "d": d, "it": it[t]})
        elif not rung[1]:
            calls.append({"f": "moasha_first", "d": d})
        elif sched_conf.get("prio") is not None:
            k = sched_conf["prio"]
            calls.append({"f": "moasha_scalar", "P": [x[k] for x in rung[1]] + [mapped[k]], "rfn": rf.numerator,
                          "rfd": rf.denominator, "d": d, "t": t, "it": it[t]})
        else:
            calls.append({"f": "moasha", "X": rung[1] + [mapped], "rfn": rf.numerator, "rfd": rf.denominator, "d": d,
                          "t": t, "it": it[t]})
        if d == "STOP":
            alive[t] = False
            sched.on_trial_remove(trials[t])
    return calls


def moasha_campaign(rep, tier, seed):
    confs = [
        {"dim": 2, "mode": "min", "max_t": 4, "grace": 1, "rf": 2, "brackets": 1},
        {"dim": 2, "mode": ["min", "max"], "max_t": 4, "grace": 1, "rf": 2, "brackets": 1},
        {"dim": 2, "mode": "max", "max_t": 9, "grace": 1, "rf": 3, "brackets": 2},
        {"dim": 3, "mode": ["max", "min", "min"], "max_t": 8, "grace": 2, "rf": 2, "brackets": 1},
        # scalar priorities: many ties (two and three values per objective)
        {"dim": 2, "mode": ["min", "max"], "max_t": 4, "grace": 1, "rf": 2, "brackets": 1, "prio": 1},
        {"dim": 2, "mode": "min", "max_t": 9, "grace": 1, "rf": 3, "brackets": 1, "prio": 0},
    ]
    n = 40 if tier == "quick" else 400
    calls = []
    for ci, sc in enumerate(confs):
        scheds = moasha_schedules(seed * 13 + ci, n, 14 if tier == "quick" else 20, 5, (0, 1, 2), sc["dim"], maxskip=1 + ci % 3)
        # longer schedules with more trials, sparse reporters and completions
        scheds += moasha_schedules(seed * 13 + ci + 50, 3 * n, 28, 8, (0, 1, 2, 3), sc["dim"], maxskip=3)
        for k, s in enumerate(scheds):
            calls.extend(moasha_episode(sc, s, seed * 1000 + k))
        rep.replays += len(scheds)
    validate_calls(rep, calls, "moasha")
    if calls:
        rep.sample({"campaign": "moasha", "call": next((c for c in calls if c["f"] == "moasha"), calls[0])})
    rep.extra["moasha_rank_decisions"] = sum(1 for c in calls if c["f"] == "moasha")
    rep.extra["moasha_scalar_rank_decisions"] = sum(1 for c in calls if c["f"] == "moasha_scalar")


def run(rep, tier, seed):
    rep.assume(
        "objective values are small integers stored as floats",
        "inside a Pareto layer any order is accepted (the epsilon-net order is not part of the property); MOASHA's "
        "decision must be possible under SOME valid sort: rank in [#earlier layers, #earlier + |own layer| - 1]",
        "MOASHA's bracket choice (numpy global generator) is read from the scheduler, not dictated",
        "with a scalar priority (FixedObjectivePriority) equal priorities share a rank: the rank of the reporting trial is "
        "the number of strictly better entries of the rung",
    )
    pareto_campaign(rep, tier, seed)
    moasha_campaign(rep, tier, seed)
