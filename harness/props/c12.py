"""C12 - tuning terminates on the stopping criterion and leaves nothing running."""
import os

from harness import tlc, tuner_models as M
from harness.props import tuner_common as T
from harness.drivers import tunerloop as D


CRIT_TABLES = {
    # name: (Gen constants, real-run conf, StoppingCriterion kwargs)
    "started": (dict(M.BASE, NT=4, Kind="stop", MaxRuns=1, MaxRep=2, CKind="started", K=2, FailB=1, R3=False, R13=False),
                {"nw": 2, "kind": "stop", "maxfail": 1, "ckind": "started", "k": 2}, {"max_num_trials_started": 2}),
    "completed": (dict(M.BASE, NT=4, Kind="stop", MaxRuns=1, MaxRep=2, CKind="completed", K=1, FailB=1, R3=False, R13=False),
                  {"nw": 2, "kind": "stop", "maxfail": 1, "ckind": "completed", "k": 1}, {"max_num_trials_completed": 1}),
    "finished": (dict(M.BASE, NT=4, Kind="pause", MaxRuns=2, MaxRep=2, CKind="finished", K=1, FailB=2, MaxFail=2, R3=False, R13=False),
                 {"nw": 2, "kind": "pause", "maxfail": 2, "ckind": "finished", "k": 1, "del": True}, {"max_num_trials_finished": 1}),
    "evals": (dict(M.BASE, NT=3, Kind="pause", MaxRuns=2, MaxRep=3, CKind="evals", K=3, FailB=1, R3=False, R13=False),
              {"nw": 2, "kind": "pause", "maxfail": 1, "ckind": "evals", "k": 3, "del": True}, {"max_num_evaluations": 3}),
    "finished_wait": (dict(M.BASE, NT=4, Kind="stop", MaxRuns=1, MaxRep=2, CKind="finished", K=0, Wait=True, FailB=1, R3=False, R13=False),
                      {"nw": 3, "kind": "stop", "maxfail": 1, "ckind": "finished", "k": 0, "wait": True},
                      {"max_num_trials_finished": 0}),
    "started_sync": (dict(M.BASE, NT=4, NW=3, Kind="stop", MaxRuns=1, MaxRep=2, CKind="started", K=1, Async=False, FailB=0,
                          R3=False, R13=False),
                     {"nw": 3, "kind": "stop", "maxfail": 1, "ckind": "started", "k": 1, "async": False},
                     {"max_num_trials_started": 1}),
    # value / cost criteria: the scripted worker reports metric (7 t + 3 r + 5 i) % 11 and cumulative cost (t + 1) * p
    "minmetric": (dict(M.BASE, NT=4, Kind="stop", MaxRuns=1, MaxRep=3, CKind="minmetric", K=2, FailB=1, R3=False, R13=False),
                  {"nw": 2, "kind": "stop", "maxfail": 1, "ckind": "minmetric", "k": 2}, {"min_metric_value": {"m": 2}}),
    "maxmetric": (dict(M.BASE, NT=3, Kind="pause", MaxRuns=2, MaxRep=2, CKind="maxmetric", K=8, FailB=1, R3=False, R13=False),
                  {"nw": 2, "kind": "pause", "maxfail": 1, "ckind": "maxmetric", "k": 8, "del": True}, {"max_metric_value": {"m": 8}}),
    "minmax": (dict(M.BASE, NT=4, Kind="stop", MaxRuns=1, MaxRep=3, CKind="minmax", K=1, K2=9, FailB=1, R3=False, R13=False),
               {"nw": 2, "kind": "stop", "maxfail": 1, "ckind": "minmax", "k": 1, "k2": 9},
               {"min_metric_value": {"m": 1}, "max_metric_value": {"m": 9}}),
    # thresholds on a metric that has no value (never reported): they do not hold, and do not hide the ones that follow
    "minmetric_other": (dict(M.BASE, NT=4, Kind="stop", MaxRuns=1, MaxRep=3, CKind="minmetric", K=2, FailB=1, R3=False, R13=False),
                        {"nw": 2, "kind": "stop", "maxfail": 1, "ckind": "minmetric", "k": 2},
                        {"max_metric_value": {"late": 5.0}, "min_metric_value": {"late": 5.0, "m": 2}}),
    "maxmetric_other": (dict(M.BASE, NT=3, Kind="pause", MaxRuns=2, MaxRep=2, CKind="maxmetric", K=8, FailB=1, R3=False, R13=False),
                        {"nw": 2, "kind": "pause", "maxfail": 1, "ckind": "maxmetric", "k": 8, "del": True},
                        {"max_metric_value": {"late": 5.0, "m": 8}, "min_metric_value": {"late": 5.0}}),
    "cost": (dict(M.BASE, NT=4, Kind="stop", MaxRuns=1, MaxRep=3, CKind="cost", K=6, FailB=1, R3=False, R13=False),
             {"nw": 2, "kind": "stop", "maxfail": 1, "ckind": "cost", "k": 6}, {"max_cost": 6}),
}


def real_criteria(rep, tier, seed):
    from syne_tune import StoppingCriterion
    flags = set(M.PROP_FLAGS["C12"])
    n = 120 if tier == "quick" else 1200
    for ti, (name, (constants, conf, kwargs)) in enumerate(CRIT_TABLES.items()):
        constants = dict(constants, NW=conf["nw"])
        path = T.gen_cfg(constants, 0)
        try:
            r = tlc.run("TunerLoop_Gen", path, workers=1, simulate=f"num={n}", depth=300, seed=seed * 1000 + 17 + ti, timeout=600)
        finally:
            os.unlink(path)
        traces, scripts = [], []
        for g in r.gen:
            script = D.Script.from_hist(g)
            run = D.run_tuner(conf, script, stop_criterion=StoppingCriterion(**kwargs))
            traces.append(D.to_trace(run, len(traces) + 1))
            scripts.append(script.to_json())
        rep.replays += len(traces)
        T.validate_traces(rep, traces, scripts, "C12", flags, f"StoppingCriterion({kwargs})")


def liveness(rep, tier):
    """<>(pc = done) under fairness, no state constraint, runs finite by construction."""
    c = dict(M.BASE, NT=2, NW=2, MaxRep=1, MaxRuns=2, FailB=1, CKind="finished", K=1, MaxFail=1)
    if tier == "thorough":
        c = dict(c, MaxRep=2)
    path = M.write_mc_cfg(c, [], spec="LiveSpec", properties=["Terminates"])
    try:
        r = tlc.run("TunerLoop_MC", path, workers=16, timeout=3000)
    finally:
        os.unlink(path)
    rep.model("TunerLoop_MC[liveness: Terminates]", r, constants=c)
    if r.violated:
        rep.violation({"check": "mc", "invariant": "Terminates"}, {"trace": tlc.short_trace(r)})


def run(rep, tier, seed):
    rep.assume(
        "'left running' is judged on the scripted backend where a trial occupies a scripted worker",
        "count-based criteria are real StoppingCriterion objects; the scripted criterion of the other campaigns is monotone",
        "status counters are compared on normal and failure-limit ends (a run aborted mid-iteration by 'completed "
        "without metrics' has not updated its status yet)",
    )
    T.model_check(rep, "C12", tier)
    liveness(rep, tier)
    T.standard_campaign(rep, "C12", tier, seed, tables=["pause", "stop", "sync", "wait"])
    real_criteria(rep, tier, seed)
    from harness.props import real_sched, sim_tuner
    real_sched.campaign(rep, "C12", tier, seed)
    # simulated experiments: count criteria alone (two-sided) and combined with a (simulated) wall-clock limit, where
    # SimulatorCallback rewrites the criterion (one-sided: when the count criterion holds the loop must stop)
    crit = [({"max_num_trials_started": 7}, "started", 7, False),
            ({"max_num_trials_finished": 4}, "finished", 4, False),
            ({"max_num_trials_completed": 2}, "completed", 2, False),
            ({"max_wallclock_time": 400.0, "max_num_trials_finished": 3}, "finished", 3, True),
            ({"max_wallclock_time": 400.0, "max_num_trials_completed": 2}, "completed", 2, True),
            ({"max_wallclock_time": 400.0, "max_num_trials_started": 6}, "started", 6, True),
            ({"max_wallclock_time": 6.0, "max_num_trials_started": 30}, "started", 30, True),
            # metric thresholds (table metric = 100 c + 10 s + level), alone and combined with a wall-clock limit
            ({"max_metric_value": {"m": 600}}, "maxmetric", 600, False),
            ({"min_metric_value": {"m": 250}}, "minmetric", 250, False),
            ({"max_wallclock_time": 400.0, "max_metric_value": {"m": 500}}, "maxmetric", 500, True),
            ({"max_wallclock_time": 400.0, "min_metric_value": {"m": 250}}, "minmetric", 250, True)]
    sim_tuner.campaign_tunerloop(rep, "C12", tier, seed, crit)
