"""C17 - the results log and the reported best configuration reflect what happened."""
import json
import math
import os
import shutil
import tempfile

import numpy as np

from harness import tlc
from harness.drivers import tunerloop as D
from harness.props import tuner_common as T
from harness.validate import validate

FLAGS = {"rows_differ_from_delivered", "delivered_not_handed", "table_changed_on_disk", "row_config_or_stamp_wrong",
         "tuner_best_not_optimal", "loaded_best_not_optimal", "printed_best_not_optimal", "trial_statistics", "overall_statistics", "raised"}
NAN = -1


def tok(v):
    return NAN if (isinstance(v, float) and math.isnan(v)) else int(round(v))


def values_fn(kind):
    def f(t, r, i):
        x = (7 * t + 3 * r + 5 * i + (t * i) % 3) % 13
        if kind == "nan" and (t + 2 * r + i) % 4 == 0:
            return float("nan")
        return float(x)
    return f


# categorical text values of the configurations (some are what CSV readers take for "missing")
TAGS = ["l2", "None", "relu", "NA", "a b", "null"]


def tag_of(x):
    return TAGS[x % len(TAGS)] if isinstance(x, int) and x >= 0 else None


def tag_token(v):
    return TAGS.index(v) if isinstance(v, str) and v in TAGS else -1


class ModeScheduler(D.ScriptedScheduler):
    def __init__(self, script, kind, mode):
        super().__init__(script, kind)
        self._mode = mode
        from syne_tune.config_space import choice
        self.config_space["tag"] = choice(TAGS)

    def _suggest(self, trial_id):
        s = super()._suggest(trial_id)
        if s is not None and s.config is not None:
            s.config["tag"] = tag_of(s.config.get("x"))
        return s

    def metric_mode(self):
        return self._mode

    def metric_names(self):
        return ["m", "m2"] if isinstance(self._mode, list) else ["m"]


def one_run(hist, conf, mode, vkind, interval):
    from syne_tune.results_callback import StoreResultsCallback
    from syne_tune.util import experiment_path
    import pandas as pd
    script = D.Script.from_hist(hist)
    vals = values_fn(vkind)
    sched = ModeScheduler(script, conf.get("kind", "stop"), mode)
    store = StoreResultsCallback()
    multi = isinstance(mode, list)
    c = dict(conf, update_interval=interval, m2=multi)
    run = D.run_tuner(c, script, scheduler=sched, values=vals, store=store, keep_dir=True)
    tuner, backend = run["tuner"], run["backend"]
    ev = []
    cfgx = [e.get("cfgx", -1) for e in run["ev"] if e["a"] == "Result"]      # configuration the result was delivered with
    for e in run["ev"]:
        if e["a"] == "Fetch":
            for (t, r, i) in e["res"]:
                ev.append({"a": "Handed", "t": t, "v": tok(vals(t, r, i))})
        elif e["a"] == "Result":
            ev.append({"a": "Deliver", "t": e["t"], "v": tok(vals(e["t"], e["r"], e["i"])), "d": e["d"],
                       "c": tag_token(tag_of(e.get("cfgx", -1)))})
    end = run["ev"][-1]
    path = experiment_path(tuner_name=tuner.name)
    try:
        rows = [[int(r["trial_id"]), tok(r["m"]), r["st_decision"], tag_token(r.get("config_tag"))] for r in store.results]
        # every row carries the full configuration of its trial AT THE TIME of the result (a resumed trial may have a new one)
        cfgok = len(cfgx) == len(store.results) and all(
            r.get("config_x") == cx and r.get("config_epochs") == 99 and "st_tuner_time" in r and "st_status" in r
            for r, cx in zip(store.results, cfgx))
        rowsback, bestL = rows, -2
        csv = os.path.join(str(path), "results.csv.zip")
        if os.path.exists(csv) and rows:
            try:
                from syne_tune.experiments import load_experiment
                # metadata.json is written by the tuner; the loaded experiment reads the table (the library's reader) and
                # ranks its rows
                exp = load_experiment(tuner.name, download_if_not_found=False, load_tuner=False)
                df = exp.results
                rowsback = [[int(a), tok(float(b)), str(c_), tag_token(g)]
                            for a, b, c_, g in zip(df["trial_id"], df["m"], df["st_decision"], df["config_tag"])]
                cfgok = cfgok and len(df) == len(cfgx) and all(int(a) == int(b) for a, b in zip(df["config_x"], cfgx))
                bc = exp.best_config() if len(exp.results) > 0 and not exp.results["m"].isna().all() else None
                bestL = -2 if bc is None else int(bc["trial_id"]) if "trial_id" in bc else int(bc["config_x"])
            except Exception as exc:   # the code under test raised
                ev.append({"a": "Crash", "where": "load_experiment", "exc": repr(exc)[:200]})
        elif rows:
            rowsback = []
        ts = tuner.tuning_status
        bestT = -1
        if ts is not None and ts.overall_metric_statistics.count > 0:
            try:
                import contextlib, io
                with contextlib.redirect_stdout(io.StringIO()):
                    bestT = int(tuner.best_config()[0])
            except Exception as exc:
                ev.append({"a": "Crash", "where": "best_config", "exc": repr(exc)[:200]})

        def stat(ms):
            has = "m" in ms.min_metrics and math.isfinite(ms.min_metrics["m"])
            mn = tok(ms.min_metrics["m"]) if has else 0
            mx = tok(ms.max_metrics["m"]) if has and math.isfinite(ms.max_metrics["m"]) else 0
            sm = ms.sum_metrics.get("m", 0)
            sm = 0 if (isinstance(sm, float) and math.isnan(sm)) else int(round(sm))
            return [int(ms.count), mn, mx, sm, bool(has)]
        nt = 12
        pstats = [stat(ts.trial_metric_statistics[t]) if ts is not None and t in ts.trial_metric_statistics else [0, 0, 0, 0, False]
                  for t in range(nt)]
        ostats = stat(ts.overall_metric_statistics) if ts is not None else [0, 0, 0, 0, False]
        ev.append({"a": "Final", "rows": rows, "rowsback": rowsback, "cfgok": bool(cfgok), "bestT": bestT, "bestL": bestL,
                   "pstats": pstats, "ostats": ostats})
        # several metrics with different modes, and the summary Tuner.run printed
        import re as _re
        t2 = l2 = -2
        if multi and ts is not None and ts.overall_metric_statistics.count > 0:
            try:
                with contextlib.redirect_stdout(io.StringIO()):
                    t2 = int(tuner.best_config(metric=1)[0])
                    if int(tuner.best_config(metric="m")[0]) != bestT or int(tuner.best_config(metric="m2")[0]) != t2:
                        t2 = -1          # the metric given by name and by index must agree
            except Exception as exc:
                ev.append({"a": "Crash", "where": "best_config(metric=1)", "exc": repr(exc)[:200]})
            if bestL != -2:
                try:
                    bc2 = exp.best_config(metric="m2")
                    l2 = int(bc2["trial_id"]) if "trial_id" in bc2 else int(bc2["config_x"])
                except Exception as exc:
                    ev.append({"a": "Crash", "where": "load_experiment.best_config(m2)", "exc": repr(exc)[:200]})
        pm = _re.findall(r"^m: best (\S+) for trial-id (\d+)\s*$", run.get("stdout", ""), flags=_re.M)
        p = int(pm[-1][1]) if pm else -2
        ev.append({"a": "BestMore", "rows": rows, "t2": t2, "l2": l2, "p": p})
    finally:
        shutil.rmtree(path, ignore_errors=True)
    m1, m2 = (mode[0], mode[1]) if multi else (mode, "max" if mode == "min" else "min")
    return {"id": 0, "conf": {"min": m1 == "min", "min2": m2 == "min"}, "ev": ev}, {"end": end, "mode": mode, "vkind": vkind, "interval": interval}


def run(rep, tier, seed):
    rep.assume(
        "metric values are small integers (and NaN) stored as floats; the scripted runs of the C01/C02 campaigns are reused "
        "with a real StoreResultsCallback, results_update_interval in {0, infinity}",
        "with NaN present min / max are required over the non-NaN values and the sum is not compared",
        "float-text fidelity: integer-valued floats survive the CSV round trip exactly",
    )
    for ismin in (True, False):
        for withnan in (False, True):
            fd, path = tempfile.mkstemp(prefix="ResultsLog_MC_", suffix=".cfg")
            os.close(fd)
            tlc.write_cfg(path, spec="Spec", constants=dict(NT=2, IsMin=ismin, Vals={0, 1, 2}, MaxLen=5 if tier == "quick" else 6,
                                                             WithNaN=withnan),
                          invariants=["RowPerDelivered", "BestIsArgOpt", "StatsMatch"])
            try:
                r = tlc.run("ResultsLog_MC", path, workers=16, timeout=900)
            finally:
                os.unlink(path)
            rep.model(f"ResultsLog_MC[min={ismin}, NaN={withnan}]", r)
            if r.violated:
                rep.violation({"check": "mc", "invariant": r.violated}, {"trace": tlc.short_trace(r, keys=("flags", "handed"))})
    n = 60 if tier == "quick" else 600
    traces, meta = [], []
    k = 0
    for name in ("pause", "stop", "pause_nofail", "nw1"):
        gen, conf = T.generate(name, seed * 100 + 71 + k, n, minlen=140, depth=420)
        for gi, g in enumerate(gen):
            mode = [["min", "max"], "max", "min", ["max", "min"], ["min", "min"]][(gi + k) % 5]
            vkind = "nan" if gi % 3 == 0 else "int"
            interval = 0 if gi % 2 == 0 else 1e9
            tr, m = one_run(g, conf, mode, vkind, interval)
            tr["id"] = len(traces) + 1
            traces.append(tr)
            meta.append(dict(m, table=name))
        k += 1
    vs = validate("ResultsLog_Trace", "ResultsLog_Trace.cfg", traces)
    st = validate.last_stats
    rep.states += st["distinct"]
    rep.transitions += st["generated"]
    counts = {}
    for i, v in vs.items():
        tr = traces[i]
        if not v.consumed:
            raise RuntimeError(f"trace {i} not consumed at {v.maxl}/{v.need}")
        rep.traces += 1
        rep.count_actions(e["a"] for e in tr["ev"])
        for f in sorted(v.flags):
            counts[f] = counts.get(f, 0) + 1
            if f in FLAGS:
                sig = {"check": "trace", "flag": f}
                crash = next((e for e in tr["ev"] if e["a"] == "Crash"), None)
                if crash is not None and f == "raised":
                    sig["where"], sig["exc"] = crash["where"], crash["exc"].split("(")[0]
                rep.violation(sig, {"meta": meta[i], "events": tr["ev"][-12:], "all_flags": sorted(v.flags)})
    rep.replays += len(traces)
    rep.extra["flags_seen_in_traces"] = counts
    if traces:
        rep.sample({"final_event": traces[len(traces) // 2]["ev"][-1]})
