"""C05 - synchronous Hyperband fills rungs exactly and promotes exactly the top trials."""
import json
import os
import re
import tempfile

from harness import tlc
from harness import synchb_models as S
from harness.drivers import synchb as D
from harness.validate import validate

FLAGS = {f for f, i in S.FLAG_INV.items() if i != "FailedNeverPromoted"} | {"rung_accounting"}
FLAGS_C13 = {"failed_promoted", "failed_promoted_too_few_valid", "scheduler_raised", "resume_not_paused", "resume_after_removable",
             "suggest_refused"}


def gen(constants, genlen, num, seed):
    fd, path = tempfile.mkstemp(prefix="SyncHB_Gen_", suffix=".cfg")
    os.close(fd)
    tlc.write_cfg(path, init="GInit", next_="GNext", constants=dict(constants, GenLen=genlen), action_constraints=["Emit"],
                  constraints=["Workers", "Bound"])
    try:
        r = tlc.run("SyncHB_Gen", path, workers=1, simulate=f"num={num}", depth=2 * genlen + 4, seed=seed, timeout=600)
    finally:
        os.unlink(path)
    keep = []
    for i, g in enumerate(r.gen):
        nxt = r.gen[i + 1] if i + 1 < len(r.gen) else None
        if nxt is not None and len(nxt) > len(g) and nxt[:len(g)] == g:
            continue
        keep.append(g)
    r.gen = keep
    return r


def drive_validate(rep, behaviours, constants, flags_of_interest, tag, seed, pid="C05"):
    conf = {"sys": S.SYSTEMS[constants["SysName"]], "min": constants["IsMin"], "mra": constants["MRA"],
            "de": constants.get("DE", False), "pr": constants.get("PR", True)}
    traces = []
    for i, g in enumerate(behaviours):
        traces.append(D.run_schedule(conf, g, seed + i).trace(i + 1))
    vs = validate("SyncHB_Trace", "SyncHB_Trace.cfg", traces)
    st = validate.last_stats
    rep.states += st["distinct"]
    rep.transitions += st["generated"]
    counts = {}
    for k, v in vs.items():
        tr = traces[k]
        if not v.consumed:
            raise RuntimeError(f"[{tag}] trace {k} not consumed at event {v.maxl}/{v.need}: "
                               f"{tr['ev'][v.maxl - 1] if v.maxl - 1 < len(tr['ev']) else None}")
        rep.traces += 1
        rep.count_actions(e["a"] for e in tr["ev"])
        for f in sorted(v.flags):
            counts[f] = counts.get(f, 0) + 1
            if f in flags_of_interest:
                crash = next((e for e in tr["ev"] if e["a"] == "Crash"), None)
                sig = {"check": "trace", "flag": f, "clause": S.FLAG_INV.get(f, f)}
                if tr["conf"].get("de"):
                    sig["scheduler"] = "dehb"
                if crash is not None and f == "scheduler_raised":
                    sig["where"] = crash["where"]
                    sig["exc"] = crash["exc"].split("(")[0]
                rep.violation(sig, {"campaign": tag, "conf": tr["conf"], "events": tr["ev"], "schedule": behaviours[k],
                                    "seed": seed + k, "all_flags": sorted(v.flags)})
    if traces:
        rep.sample({"campaign": tag, "trace_events": [json.dumps(e) for e in traces[len(traces) // 2]["ev"][:30]]})
    rep.replays += len(traces)
    return counts


def tables(tier):
    b = S.base
    t = {"hb31": b(), "hb31_max": b(IsMin=False, MRA=False), "sh31": b(SysName="sh31", NT=4),
         "cust": b(SysName="cust", Vals={0, 1}), "hb421": b(SysName="hb421", NT=6, Vals={0, 1}),
         "cust_max": b(SysName="cust", Vals={0, 1, 2}, IsMin=False, Faults=False),       # two promotions per rung, mode max
         "hb31_nofault": b(Faults=False, MaxRun=3, NT=6),
         # two failures in one rung: fewer valid results than slots in the next rung
         "cust_2f": b(SysName="cust", NT=5, Vals={0, 1}, MaxFaults=2, MaxRun=3),
         # trials that report "not a number" without failing: ranked last, promoted only to fill a rung
         "cust_nan": b(SysName="cust", Vals={0, 1}, WithNaN=True, Faults=False),
         # Differential Evolution Hyperband on the same bracket manager (pause / resume only in the very first bracket)
         "de31": b(SysName="de31", NT=6, DE=True, Vals={0, 1}), "de31_nopr_max": b(SysName="de31", NT=6, DE=True, PR=False, IsMin=False, MRA=False, Vals={0, 1}),
         "de321": b(SysName="de321", NT=7, DE=True, Vals={0, 1}, Faults=False),
         # fewer brackets per iteration than rung levels: the second iteration starts again with the full first bracket
         "de321one": b(SysName="de321one", NT=9, DE=True, Vals={0}, Faults=False, MaxRun=1),
         "de321two": b(SysName="de321two", NT=9, DE=True, Vals={0, 1}, Faults=False, MaxRun=1)}
    if tier == "thorough":
        t["hb421_3w"] = b(SysName="hb421", NT=7, Vals={0, 1}, MaxRun=3)
        t["cust_2f_deep"] = b(SysName="cust", NT=6, Vals={0, 1, 2}, MaxFaults=2, MaxRun=3)
    return t


def campaign_c13(rep, tier, seed):
    """Scheduler-level failures of synchronous Hyperband, judged under C13."""
    total = {}
    for name, c in {"hb31": S.base(), "cust_2f": S.base(SysName="cust", NT=5, Vals={0, 1}, MaxFaults=2, MaxRun=3),
                    "hb421": S.base(SysName="hb421", NT=6, Vals={0, 1}, MaxFaults=2),
                    # DEHB: one failure, and as many failures as the first rung has slots (known finding F17)
                    "de31": S.base(SysName="de31", NT=6, DE=True, Vals={0, 1}),
                    "de31_3f": S.base(SysName="de31", NT=7, DE=True, Vals={0, 1}, MaxFaults=3, MaxRun=3),
                    "de321_2f": S.base(SysName="de321", NT=5, DE=True, Vals={0, 1}, MaxFaults=2, MaxRun=3),
                    # failures in later brackets (known finding F23: a failed slot among the mutation parents); traces only
                    "de321_8t_2f": S.base(SysName="de321", NT=8, DE=True, Vals={0, 1}, MaxFaults=2, MaxRun=2)}.items():
        # (the model reproduces F17 as well: NextJobNeverBlocks is judged on the traces, where it is matched as known finding)
        if c["NT"] < 8:
            r = S.run_mc(c, [i for i in S.INV if not (c.get("DE") and c.get("MaxFaults", 1) > 1 and i == "NextJobNeverBlocks")])
            rep.model(f"SyncHB_MC[{name}]", r)
        glen = (14 if tier == "quick" else 20) if c["NT"] < 8 else 30
        g = gen(c, glen, (25 if tier == "quick" else 300) * (4 if c["NT"] >= 8 else 1), seed * 171 + len(name))
        cnt = drive_validate(rep, g.gen, c, FLAGS_C13, f"synchb-failures:{name}", seed * 1000 + 5, pid="C13")
        for k, v in cnt.items():
            total[k] = total.get(k, 0) + v
    return total


FLAGS_C20 = {"removable_but_resumable", "resume_after_removable", "scheduler_raised"}


def campaign_c20(rep, tier, seed):
    """trials_checkpoints_can_be_removed of synchronous Hyperband (what RemoveCheckpointsCallback deletes), judged under C20:
    only trials that can never be resumed are declared removable -- both modes, one and two promotions per rung."""
    total = {}
    for name, c in {"hb31": S.base(), "cust_max": S.base(SysName="cust", Vals={0, 1, 2}, IsMin=False, Faults=False),
                    "hb421_max": S.base(SysName="hb421", NT=6, Vals={0, 1, 2}, IsMin=False, MRA=False),
                    "cust": S.base(SysName="cust", Vals={0, 1}),
                    # trials that report "not a number" without failing rank last like failed ones; with fewer valid results
                    # than slots of the next rung some of them are promoted, and these must not be declared removable
                    "cust_nan": S.base(SysName="cust", Vals={0}, WithNaN=True, Faults=False),
                    "hb421_nan_max": S.base(SysName="hb421", NT=6, Vals={1}, WithNaN=True, IsMin=False, Faults=False)}.items():
        r = S.run_mc(c, ["RemovableOnlyNonPromoted"])
        rep.model(f"SyncHB_MC[{name}]", r)
        if r.violated:
            rep.violation({"check": "mc", "invariant": r.violated, "config": name}, {"trace": tlc.short_trace(r, keys=("flags", "B", "st"))})
        g = gen(c, 14 if tier == "quick" else 20, 25 if tier == "quick" else 300, seed * 191 + len(name))
        cnt = drive_validate(rep, g.gen, c, FLAGS_C20, f"synchb-removable:{name}", seed * 1000 + 9, pid="C20")
        for k, v in cnt.items():
            total[k] = total.get(k, 0) + v
    return total


def run(rep, tier, seed):
    rep.assume(
        "metric values are small integers stored as floats; ties among equal metrics may be broken either way",
        "rung systems are legal (sizes strictly decreasing, levels strictly increasing)",
        "C05 ranks failed trials last but does not exclude them from promotion; promotion of a failed trial is judged under C13",
        "DEHB (cf.de): rung filling, bracket cycling, levels, milestones, pause/stop decisions and first-bracket promotions "
        "are judged; its differential-evolution arithmetic (which configuration a new trial evaluates) is not modelled",
    )
    total = {}
    for name, c in tables(tier).items():
        r = S.run_mc(c)
        rep.model(f"SyncHB_MC[{name}]", r, constants={k: (sorted(v) if isinstance(v, (set, frozenset)) else v) for k, v in c.items()})
        if r.violated:
            rep.violation({"check": "mc", "invariant": r.violated, "config": name},
                          {"trace": tlc.short_trace(r, keys=("flags", "B", "st"))})
        glen = (14 if tier == "quick" else 20) if c["NT"] < 9 else 34       # (long enough to reach the second iteration)
        g = gen(c, glen, 25 if tier == "quick" else 300, seed * 131 + len(name))
        cnt = drive_validate(rep, g.gen, c, FLAGS, f"simulate:{name}", seed * 1000)
        for k, v in cnt.items():
            total[k] = total.get(k, 0) + v
    rep.extra["flags_seen_in_traces"] = total
