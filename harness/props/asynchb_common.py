"""Shared campaign for AsyncHB-decided properties (C03, C04; C14 extends it)."""
import json
import os
import tempfile

from harness import tlc
from harness import asynchb_models as A
from harness.drivers import asynchb as D
from harness.validate import validate


def gen(constants, genlen, num, seed, exhaustive=False):
    fd, path = tempfile.mkstemp(prefix="AsyncHB_Gen_", suffix=".cfg")
    os.close(fd)
    c = dict(constants, GenLen=genlen)
    tlc.write_cfg(path, init="GInit", next_="GNext", constants=c, action_constraints=["Emit"],
                  constraints=["Workers", "Bound"], view="View" if exhaustive else None)
    try:
        if exhaustive:
            r = tlc.run("AsyncHB_Gen", path, workers=1, timeout=900)
        else:
            r = tlc.run("AsyncHB_Gen", path, workers=1, simulate=f"num={num}", depth=genlen + 2, seed=seed, timeout=600)
    finally:
        os.unlink(path)
    # walks are printed at several lengths: keep only behaviours that are not a proper prefix of the next one
    keep = []
    for i, g in enumerate(r.gen):
        nxt = r.gen[i + 1] if i + 1 < len(r.gen) else None
        if nxt is not None and len(nxt) > len(g) and nxt[:len(g)] == g:
            continue
        keep.append(g)
    r.gen = keep
    return r


def drive_validate(rep, behaviours, constants, flags_of_interest, tag, seed, conf_override=None):
    conf = D.conf_from_constants(constants)
    conf.update(conf_override or {})
    traces = []
    for i, g in enumerate(behaviours):
        ep = D.run_schedule(conf, g, seed=seed + i)
        traces.append(ep.trace(i + 1))
    vs = validate("AsyncHB_Trace", "AsyncHB_Trace.cfg", traces)
    st = validate.last_stats
    rep.states += st["distinct"]
    rep.transitions += st["generated"]
    counts = {}
    for k, v in vs.items():
        tr = traces[k]
        if not v.consumed:
            raise RuntimeError(f"[{tag}] trace {k} not consumed at event {v.maxl}/{v.need}: "
                               f"{tr['ev'][v.maxl - 1] if v.maxl - 1 < len(tr['ev']) else None} conf={tr['conf']}")
        rep.traces += 1
        rep.count_actions(e["a"] for e in tr["ev"])
        for f in sorted(v.flags):
            counts[f] = counts.get(f, 0) + 1
            if f in flags_of_interest:
                sig = {"check": "trace", "flag": f, "clause": A.FLAG_INV.get(f, f), "type": tr["conf"]["type"]}
                if f == "scheduler_raised":
                    crash = next((e for e in tr["ev"] if e["a"] == "Crash"), None)
                    if crash is not None:
                        sig["where"], sig["exc"] = crash["where"], crash["exc"].split("(")[0]
                    sig["brackets"], sig["per_bracket"] = tr["conf"]["nbr"], bool(tr["conf"]["perbr"])
                rep.violation(sig,
                              {"campaign": tag, "conf": tr["conf"], "events": tr["ev"], "schedule": behaviours[k],
                               "seed": seed + k, "all_flags": sorted(v.flags)})
    if traces:
        rep.sample({"campaign": tag, "conf": {k: v for k, v in traces[0]["conf"].items()},
                    "trace_events": [json.dumps(e) for e in traces[len(traces) // 2]["ev"][:30]]})
    rep.replays += len(traces)
    return counts


def campaign(rep, tier, seed, tables, invariants, flags, variants=None):
    """variants: {table name: [conf overrides]} -- the same generated behaviours are also driven through schedulers built
    with the overridden configuration (e.g. another searcher) and judged by the same trace specification."""
    total = {}
    for name, constants in tables.items():
        r = A.run_mc(constants, invariants)
        rep.model(f"AsyncHB_MC[{name}]", r, constants={k: (sorted(v) if isinstance(v, (set, frozenset)) else v)
                                                        for k, v in constants.items()})
        if r.violated:
            rep.violation({"check": "mc", "invariant": r.violated, "config": name},
                          {"trace": tlc.short_trace(r, keys=("flags", "rung", "st", "lastr", "ms"))})
        n = 30 if tier == "quick" else 400
        g = gen(constants, 16 if tier == "quick" else 22, n, seed * 977 + len(name))
        c = drive_validate(rep, g.gen, constants, flags, f"simulate:{name}", seed * 10000)
        for k, v in c.items():
            total[k] = total.get(k, 0) + v
        for ov in (variants or {}).get(name, []):
            c = drive_validate(rep, g.gen, constants, flags, f"simulate:{name}:{ov}", seed * 10000 + 77, conf_override=ov)
            for k, v in c.items():
                total[k] = total.get(k, 0) + v
    rep.extra["flags_seen_in_traces"] = total
    return total
