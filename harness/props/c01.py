"""C01 - worker budget and legal trial life cycle (TunerLoop; DESIGN.md section 6)."""
from harness.props import tuner_common as T


def run(rep, tier, seed):
    rep.assume(
        "scripted poll-type backend (LocalBackend semantics: append-only report stream, stop/pause flags, immediate kill); "
        "the generic TrialBackend logic and Tuner.run are the library's",
        "worker steps are placed only right before an observation (poll, kill, stop_all); sound because they commute "
        "with every other tuner step",
        "known findings are matched by flag (known_findings.json), every other raised flag is a violation",
    )
    T.model_check(rep, "C01", tier)
    if T.model_finding_demo(rep, "C01", "R13", "CallbackProtocol"):
        rep.violation({"check": "mc-demo", "invariant": "CallbackProtocol"}, {})
    T.standard_campaign(rep, "C01", tier, seed)      # every generation table, incl. ask_linger (busy_trial_ids with lingering stops)
    from harness.props import real_sched
    real_sched.campaign(rep, "C01", tier, seed)
    real_sched.campaign_early_removal(rep, "C01", tier, seed, n=24 if tier == "quick" else 240)
    from harness.props import sim_tuner
    sim_tuner.campaign_tunerloop(rep, "C01", tier, seed)
    # binding 3: the same generated behaviours on the real LocalBackend (lock-step puppet processes)
    from harness.props import local_backend
    local_backend.campaign(rep, "C01", tier, seed)
