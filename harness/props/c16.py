"""C16 - a saved and restored scheduler or searcher continues exactly like the original.

Twin A runs a history uninterrupted.  Twin B runs the same history but is replaced, at the positions TLC
chose (Restore events of Searcher_Gen), by (i) dill.loads(dill.dumps(scheduler)) -- what Tuner.save/load do --
or (ii) searcher.clone_from_state(pickle round trip of searcher.get_state()).  Whenever B's answer differs
from A's a Diverge event is logged; B's trace is validated by TLC against Searcher_Trace (SameContinuation,
NoRepeat, NoneOnlyWhenExhausted ... on the restored twin)."""
import json

from harness.drivers import searcher as D
from harness.props import c06
from harness.validate import validate

FLAGS = {"twin_diverged", "repeat", "initial_order", "scheduler_raised", "outside_domain"}      # (premature "nothing left": C06, known finding F22)
DILL_KINDS = ["fifo_random", "fifo_random_dup", "fifo_grid", "hb_random", "hb_random_promo", "synchb", "dehb", "pbt", "regevo",
              "hbt_pasha", "hbt_rush_stopping", "hbt_rush_promotion", "hbt_cost_promotion", "moasha", "median",
              "fifo_grid_dup", "fifo_random_restrict"]
STATE_KINDS = ["fifo_random", "fifo_random_dup", "fifo_grid", "hb_random", "fifo_grid_dup", "fifo_random_restrict"]
GP_DILL = ["fifo_bayesopt", "hb_bayesopt"]
GP_STATE = ["fifo_bayesopt", "hb_bayesopt", "fifo_bayesopt_small"]


def twin_run(kind, name, p2e, seed, hist, how):
    a = D.Episode(kind, name, p2e, seed, own_global_rng=True)
    b = D.Episode(kind, name, p2e, seed, own_global_rng=True)
    for step in hist:
        if step["a"] == "Restore":
            try:
                if how == "dill":
                    b.restore_dill()
                else:
                    b.restore_state()
            except Exception as exc:   # the facility itself raised
                b._crash("restore:" + how, exc)
            b.ev.append({"a": "Restore", "how": how})
            continue
        na, nb = len(a.outputs), len(b.outputs)
        a.step(step)
        b.step(step)
        if a.outputs[na:] != b.outputs[nb:]:
            b.ev.append({"a": "Diverge", "A": repr(a.outputs[na:])[:300], "B": repr(b.outputs[nb:])[:300]})
    return a, b


def deep_gp_history(n_trials, restore_after):
    """A sequential history: each trial is suggested and reports until it is stopped or reaches the maximum; a snapshot /
    restore is taken after the trials listed in restore_after."""
    h = []
    for t in range(n_trials):
        h.append({"a": "Suggest"})
        h.extend({"a": "Result", "t": t} for _ in range(9))
        if t in restore_after:
            h.append({"a": "Restore"})
    return h


def campaign(rep, kinds, how, hists, seed, per_kind, tag, space=None):
    traces, meta = [], []
    for n, kind in enumerate(kinds):
        for j in range(per_kind):
            name = space or list(c06.P2E)[(j + n) % len(c06.P2E)]
            p2e = [] if space else c06.P2E[name][(j // 3 + j) % len(c06.P2E[name])]
            if kind == "fifo_random_restrict":
                p2e = []        # (initial configurations outside the restriction are dropped by design: none are given)
            h = hists[(j * 5 + n) % len(hists)]
            _, b = twin_run(kind, name, p2e, seed + j, h, how)
            traces.append(b.trace(len(traces) + 1))
            meta.append({"kind": kind, "how": how, "space": name, "p2e": p2e, "seed": seed + j, "history": h})
    vs = validate("Searcher_Trace", "Searcher_Trace.cfg", traces)
    st = validate.last_stats
    rep.states += st["distinct"]
    rep.transitions += st["generated"]
    counts = {}
    for k, v in vs.items():
        tr = traces[k]
        if not v.consumed:
            raise RuntimeError(f"[{tag}] trace {k} not consumed at {v.maxl}/{v.need}")
        rep.traces += 1
        rep.count_actions(e["a"] for e in tr["ev"])
        for f in sorted(v.flags):
            counts[f] = counts.get(f, 0) + 1
            if f in FLAGS:
                sig = {"check": "trace", "flag": f, "scheduler": meta[k]["kind"], "how": how}
                crash = next((e for e in tr["ev"] if e["a"] == "Crash"), None)
                if crash is not None and f == "scheduler_raised":
                    sig["where"], sig["exc"] = crash["where"], crash["exc"].split("(")[0]
                    if not crash["where"].startswith("restore:"):
                        # the scheduler itself raised (e.g. DEHB after failures, C13): a C16 matter only if the twin that
                        # was never interrupted did not raise at the same point -- and then twin_diverged is raised
                        continue
                rep.violation(sig, {"campaign": tag, "meta": meta[k], "conf": tr["conf"], "events": tr["ev"],
                                    "all_flags": sorted(v.flags)})
    if traces:
        rep.sample({"campaign": tag, "meta": meta[len(meta) // 2],
                    "trace_events": [json.dumps(e) for e in traces[len(traces) // 2]["ev"][:24]]})
    rep.replays += len(traces)
    return counts


def run(rep, tier, seed):
    rep.assume(
        "dill round trip for every scheduler kind; get_state / clone_from_state for random, grid, GP single- and "
        "multi-fidelity searchers",
        "snapshot positions are the Restore events of the TLC-generated histories (incl. before the first suggestion, "
        "while trials are pending or paused)",
        "outputs compared: every suggestion (new / resume, configuration, checkpoint source) and every decision",
    )
    hists = c06.histories(seed * 17 + 3, 80 if tier == "quick" else 500, 18 if tier == "quick" else 26, restores=2)
    hists = [h for h in hists if any(s["a"] == "Restore" for s in h)]
    rep.extra["histories_from_tlc"] = len(hists)
    n = 25 if tier == "quick" else 250
    total = {}
    for kinds, how, per, tag in ((DILL_KINDS, "dill", n, "dill"), (STATE_KINDS, "state", n, "get_state/clone_from_state"),
                                 (GP_DILL, "dill", 3 if tier == "quick" else 30, "gp-dill"),
                                 (GP_STATE, "state", 8 if tier == "quick" else 40, "gp-state")):
        c = campaign(rep, kinds, how, hists, seed * 100 + 11, per, tag)
        for k, v in c.items():
            total[k] = total.get(k, 0) + v
    # model-based suggestions after the restore, with the target resource of the multi-fidelity searcher still moving
    deep = [deep_gp_history(9, ra) for ra in ([1, 3], [2, 5], [0, 4, 6])][: (2 if tier == "quick" else 3)]
    for how in ("state", "dill"):
        c = campaign(rep, ["hbdeep_bayesopt"], how, deep, seed * 100 + 31, len(deep) if tier == "quick" else 2 * len(deep),
                     f"gp-deep-{how}", space="sc")
        for k, v in c.items():
            total[k] = total.get(k, 0) + v
    # snapshots between two back-to-back suggestions of the model-based phase (no new observation in between): what the
    # surrogate model was last fitted to is part of the state
    def b2b(k):
        h = [{"a": "Suggest"} for _ in range(3)]
        for t in range(3):
            h += [{"a": "Result", "t": t}] * (1 + (t + k) % 2)
        h += [{"a": "Suggest"}, {"a": "Restore"}, {"a": "Suggest"}, {"a": "Result", "t": 3}, {"a": "Suggest"},
              {"a": "Result", "t": 4}, {"a": "Result", "t": 5}, {"a": "Suggest"}, {"a": "Restore"}, {"a": "Suggest"}, {"a": "Suggest"}]
        return h
    for how in ("state", "dill"):
        c = campaign(rep, GP_STATE, how, [b2b(0), b2b(1)], seed * 100 + 41, 4 if tier == "quick" else 12, f"gp-back-to-back-{how}")
        for k, v in c.items():
            total[k] = total.get(k, 0) + v
    # a surrogate model fitted to a random sub-sample of the data (max_size_data_for_model) with periodic skipping of the
    # refit: the sub-sampling converter and the skip predicate's counter are part of what a restored searcher continues with
    def small(k):
        h = [{"a": "Suggest"} for _ in range(3)]
        for t in range(3):
            h += [{"a": "Result", "t": t}, {"a": "Complete", "t": t}]
        t = 3
        for i in range(8):
            h += [{"a": "Suggest"}]
            if i in (1 + k % 2, 4, 6):
                h += [{"a": "Restore"}, {"a": "Suggest"}, {"a": "Result", "t": t + 1}, {"a": "Complete", "t": t + 1},
                      {"a": "Result", "t": t}, {"a": "Complete", "t": t}]
                t += 2
            else:
                h += [{"a": "Result", "t": t}, {"a": "Complete", "t": t}]
                t += 1
        return h
    for how in ("state", "dill"):
        c = campaign(rep, ["fifo_bayesopt_small"], how, [small(0), small(1)], seed * 100 + 51, 8 if tier == "quick" else 32,
                     f"gp-subsample-{how}")
        for k, v in c.items():
            total[k] = total.get(k, 0) + v
    rep.extra["flags_seen_in_traces"] = total
    # the design-level obligation: Restore is a stuttering step of the abstract state (TwinRestore_MC)
    from harness import tlc
    r = tlc.run("TwinRestore_MC", "TwinRestore_MC.cfg", workers=4, timeout=300)
    rep.model("TwinRestore_MC (SameContinuation over all histories and restore points, abstract searcher)", r)
    if r.violated:
        rep.violation({"check": "mc", "invariant": r.violated}, {"trace": tlc.short_trace(r)})
