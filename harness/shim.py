"""Environment shims (harness side, no repository change). See DESIGN.md section 12."""
import logging
import os
import sys
import tempfile

# ConfigSpace binary vs numpy 2: make the library take its own "yahpo not installed" path.
sys.modules.setdefault("yahpo_gym", None)
sys.modules.setdefault("ConfigSpace", None)   # same binary incompatibility: take the library's "SMAC not installed" path

if "SYNETUNE_FOLDER" not in os.environ:
    import atexit
    import shutil
    _d = tempfile.mkdtemp(prefix="verif_st_")
    os.environ["SYNETUNE_FOLDER"] = _d
    atexit.register(shutil.rmtree, _d, True)

logging.disable(logging.CRITICAL)


def repo_root() -> str:
    import syne_tune
    return os.path.dirname(os.path.dirname(os.path.abspath(syne_tune.__file__)))
