"""Thin, deterministic wrapper around TLC / SANY.

Everything a check needs from a TLC run is parsed here: state counts, depth,
the name of a violated invariant / property / assumption, per-action coverage,
``@@GEN@@`` behaviour lines (behaviour generation) and ``@@ACC@@`` lines (batch
trace validation).  A TLC run that ends in anything but "no error" or a
recognised property violation is *machinery failure* (``TLCError``).
"""
import json
import os
import re
import shutil
import subprocess
import tempfile
import time
from dataclasses import dataclass, field
from typing import Dict, List, Optional

VERIF = os.path.dirname(os.path.dirname(os.path.abspath(__file__)))
SPECS = os.path.join(VERIF, "specs")
JAR = "/opt/veriftools/tla/tla2tools.jar"
DEPS = "/opt/veriftools/tla/CommunityModules-deps.jar"


class TLCError(RuntimeError):
    """Machinery failure (exit 2), never a property violation."""


@dataclass
class TLCResult:
    rc: int
    out: str
    wall_s: float
    generated: int = 0
    distinct: int = 0
    depth: int = 0
    violated: Optional[str] = None  # name of invariant / property / assumption
    violation_kind: Optional[str] = None
    deadlock: bool = False
    coverage: Dict[str, int] = field(default_factory=dict)
    gen: List = field(default_factory=list)
    acc: Dict[int, tuple] = field(default_factory=dict)
    prints: List[str] = field(default_factory=list)
    fp_collision: Optional[str] = None
    errtrace: List[str] = field(default_factory=list)

    @property
    def ok(self):
        return self.violated is None and not self.deadlock


_RE_COUNTS = re.compile(
    r"(\d+) states generated, (\d+) distinct states found, (\d+) states left on queue"
)
_RE_DEPTH = re.compile(r"The depth of the complete state graph search is (\d+)")
_RE_INV = re.compile(r"Error: Invariant (\S+) is violated")
_RE_PROP = re.compile(r"Error: (?:Action|Temporal) propert(?:y|ies) (\S+)? ?(?:is|were) violated")
_RE_ACTPROP = re.compile(r"Error: Action property (\S+) is violated")
_RE_ASSUME = re.compile(r"Error: Assumption line (\d+), col (\d+) to line (\d+), col (\d+) of module (\S+) is false")
_RE_COV = re.compile(r"^<(\w+) line (\d+), col \d+ to line \d+, col \d+ of module (\w+)(?: \((\d+) \d+ \d+ \d+\))?>: (\d+):(\d+)")
_RE_FP = re.compile(r"calculated \(optimistic\):\s+val = (\S+)")


def _unescape_tla_string(s: str) -> str:
    # TLC prints strings with \" and \\ escaped
    return s.replace('\\"', '"').replace("\\\\", "\\")


def parse(out: str, rc: int, wall: float) -> TLCResult:
    r = TLCResult(rc=rc, out=out, wall_s=wall)
    for m in _RE_COUNTS.finditer(out):
        r.generated, r.distinct = int(m.group(1)), int(m.group(2))
    m = _RE_DEPTH.search(out)
    if m:
        r.depth = int(m.group(1))
    m = _RE_INV.search(out)
    if m:
        r.violated, r.violation_kind = m.group(1), "invariant"
    m = _RE_ACTPROP.search(out)
    if m and r.violated is None:
        r.violated, r.violation_kind = m.group(1), "action_property"
    m = re.search(r"Error: Temporal property (\S+) was violated", out)
    if m and r.violated is None:
        r.violated, r.violation_kind = m.group(1), "temporal"
    if r.violated is None and "Temporal properties were violated" in out:
        r.violated, r.violation_kind = "temporal", "temporal"
    m = _RE_ASSUME.search(out)
    if m and r.violated is None:
        r.violated, r.violation_kind = f"ASSUME@{m.group(5)}:{m.group(1)}", "assumption"
    if "Error: Deadlock reached" in out:
        r.deadlock = True
    m = _RE_FP.search(out)
    if m:
        r.fp_collision = m.group(1)
    in_trace = False
    for line in out.splitlines():
        mc = _RE_COV.match(line)
        if mc:
            # a quantified disjunct is reported under the enclosing definition with its own location: "T_Step@645"
            name = mc.group(1) if mc.group(4) is None else f"{mc.group(1)}@{mc.group(4)}"
            r.coverage[name] = r.coverage.get(name, 0) + int(mc.group(6))
            continue
        if line.startswith('<<"@@GEN@@", '):
            body = line[len('<<"@@GEN@@", '):]
            # body is  "<escaped json>">>
            if body.endswith(">>"):
                body = body[:-2]
            body = body.strip()
            if body.startswith('"') and body.endswith('"'):
                body = body[1:-1]
            try:
                r.gen.append(json.loads(_unescape_tla_string(body)))
            except json.JSONDecodeError as e:
                raise TLCError(f"cannot parse @@GEN@@ line: {line[:200]} ({e})")
            continue
        if line.startswith('<<"@@ACC@@", '):
            nums = re.findall(r"-?\d+", line[len('<<"@@ACC@@", '):])
            tid, maxl, need = int(nums[0]), int(nums[1]), int(nums[2])
            r.acc[tid] = (maxl, need)
            continue
        if line.startswith('<<"@@'):
            r.prints.append(line)
        if line.startswith("Error: The behavior up to this point is") or line.startswith(
            "Error: The following behavior constitutes a counter-example"
        ):
            in_trace = True
        if in_trace:
            r.errtrace.append(line)
    return r


def run(
    module: str,
    cfg: str,
    workers: int = 16,
    timeout: int = 900,
    env: Optional[dict] = None,
    coverage: bool = False,
    simulate: Optional[str] = None,
    depth: Optional[int] = None,
    seed: Optional[int] = None,
    deadlock_check: bool = False,
    dfs_queue: bool = False,
    extra: tuple = (),
    cwd: Optional[str] = None,
    heap: str = "8g",
) -> TLCResult:
    """Run TLC on ``specs/<module>.tla`` with ``specs/<cfg>``.

    ``violated`` is set for invariant / property / assumption violations; any other
    error (parse error, evaluation error, time-out) raises ``TLCError``.
    """
    cwd = cwd or SPECS
    meta = tempfile.mkdtemp(prefix="tlcmeta_")
    # (TLC creates an empty "tlc-<n>" directory under java.io.tmpdir on every start: kept inside the meta directory)
    java_opts = [f"-Xmx{heap}", "-Xss64m", "-XX:+UseParallelGC", f"-Djava.io.tmpdir={meta}"]
    if dfs_queue:
        java_opts.append("-Dtlc2.tool.queue.IStateQueue=StateDeque")
    cmd = ["java"] + java_opts + ["-cp", f"{JAR}:{DEPS}", "tlc2.TLC",
           "-workers", str(workers), "-metadir", meta, "-noGenerateSpecTE",
           "-config", cfg]
    if not deadlock_check:
        cmd.append("-deadlock")
    if coverage:
        cmd += ["-coverage", "1"]
    if simulate is not None:
        cmd += ["-simulate", simulate]
    if depth is not None:
        cmd += ["-depth", str(depth)]
    if seed is not None:
        cmd += ["-seed", str(seed)]
    cmd += list(extra)
    cmd.append(module)
    e = dict(os.environ)
    if env:
        e.update({k: str(v) for k, v in env.items()})
    t0 = time.time()
    try:
        p = subprocess.run(cmd, cwd=cwd, env=e, capture_output=True, text=True, timeout=timeout)
    except subprocess.TimeoutExpired as ex:
        subprocess.run(["pkill", "-f", meta], check=False)
        shutil.rmtree(meta, ignore_errors=True)
        raise TLCError(f"TLC time-out after {timeout}s: {module} {cfg}") from ex
    finally:
        pass
    wall = time.time() - t0
    shutil.rmtree(meta, ignore_errors=True)
    out = p.stdout + ("\n" + p.stderr if p.stderr else "")
    r = parse(out, p.returncode, wall)
    if r.violated is None and not r.deadlock:
        finished = "Model checking completed. No error has been found" in out or (
            simulate is not None and ("Finished in" in out or "states checked" in out)
        )
        if p.returncode != 0 or not finished:
            tail = "\n".join(out.splitlines()[-40:])
            raise TLCError(f"TLC failed rc={p.returncode} on {module}/{cfg}:\n{tail}")
    return r


def sany(module: str, cwd: Optional[str] = None) -> None:
    cwd = cwd or SPECS
    p = subprocess.run(
        ["java", "-cp", f"{JAR}:{DEPS}", "tla2sany.SANY", module],
        cwd=cwd, capture_output=True, text=True, timeout=120,
    )
    out = p.stdout + p.stderr
    if p.returncode != 0 or "Semantic errors" in out or "Parse Error" in out or "*** Errors" in out:
        raise TLCError(f"SANY failed on {module}:\n{out[-3000:]}")


def write_cfg(path: str, *, constants: Optional[dict] = None, spec: Optional[str] = None,
              init: Optional[str] = None, next_: Optional[str] = None,
              invariants=(), properties=(), constraints=(), action_constraints=(),
              view: Optional[str] = None, postcondition: Optional[str] = None,
              symmetry: Optional[str] = None, deadlock: Optional[bool] = None) -> None:
    """Emit a literal-constant cfg (constant overrides by definition were measured quadratic)."""
    lines = []
    if spec:
        lines.append(f"SPECIFICATION {spec}")
    if init:
        lines.append(f"INIT {init}")
    if next_:
        lines.append(f"NEXT {next_}")
    if constants:
        lines.append("CONSTANTS")
        for k, v in constants.items():
            lines.append(f"  {k} = {tla_value(v)}")
    for i in invariants:
        lines.append(f"INVARIANT {i}")
    for p in properties:
        lines.append(f"PROPERTY {p}")
    for c in constraints:
        lines.append(f"CONSTRAINT {c}")
    for c in action_constraints:
        lines.append(f"ACTION_CONSTRAINT {c}")
    if view:
        lines.append(f"VIEW {view}")
    if symmetry:
        lines.append(f"SYMMETRY {symmetry}")
    if postcondition:
        lines.append(f"POSTCONDITION {postcondition}")
    if deadlock is not None:
        lines.append(f"CHECK_DEADLOCK {'TRUE' if deadlock else 'FALSE'}")
    with open(path, "w") as f:
        f.write("\n".join(lines) + "\n")


def tla_value(v) -> str:
    """Python value -> TLA+ cfg literal."""
    if isinstance(v, bool):
        return "TRUE" if v else "FALSE"
    if isinstance(v, int):
        if v < 0:
            raise ValueError("cfg files reject negative literals; define an operator instead")
        return str(v)
    if isinstance(v, str):
        return '"' + v + '"'
    if isinstance(v, (list, tuple)):
        return "<<" + ", ".join(tla_value(x) for x in v) + ">>"
    if isinstance(v, (set, frozenset)):
        return "{" + ", ".join(tla_value(x) for x in sorted(v, key=repr)) + "}"
    if isinstance(v, dict):
        if not v:
            return "<<>>"
        return "[" + ", ".join(f"{k} |-> {tla_value(x)}" for k, x in v.items()) + "]"
    raise TypeError(type(v))


def short_trace(r: TLCResult, keys=("flags",)) -> List[str]:
    """Action names of a counterexample plus selected variables of the last state."""
    acts, last = [], {}
    curvar = None
    for line in r.errtrace:
        m = re.match(r"State (\d+): <(\w+)", line)
        if m:
            acts.append(m.group(2))
            last = {}
            continue
        m = re.match(r"/\\ (\w+) = (.*)", line)
        if m:
            curvar = m.group(1)
            last[curvar] = m.group(2)
        elif curvar and line.strip() and not line.startswith("State"):
            last[curvar] += " " + line.strip()
    return acts + [f"{k} = {last.get(k)}" for k in keys]
