"""Verdict collection, known-findings matching and evidence writing.

Contract (MANIFEST): exit 0 = property held on everything explored (known findings
printed as KNOWN-FINDING lines); exit 1 + "VIOLATION property=<id> replay=<path>";
exit 2 = machinery failure.  known_findings.json is never written at run time.
"""
import json
import os
import sys
import time

VERIF = os.path.dirname(os.path.dirname(os.path.abspath(__file__)))
EVIDENCE = os.path.join(VERIF, "evidence")
OUT = os.path.join(VERIF, "out")
FINDINGS = os.path.join(VERIF, "known_findings.json")


def load_findings():
    if not os.path.exists(FINDINGS):
        return []
    with open(FINDINGS) as f:
        return json.load(f).get("known", [])


def _matches(sig: dict, finding: dict) -> bool:
    want = finding.get("signature", {})
    return all(sig.get(k) == v for k, v in want.items())


class Report:
    def __init__(self, pid: str, tier: str, seed: int, level: str = "model_checking"):
        self.pid, self.tier, self.seed, self.level = pid, tier, seed, level
        self.t0 = time.time()
        self.states = 0
        self.transitions = 0
        self.traces = 0
        self.replays = 0
        self.samples = []
        self.assumptions = []
        self.models = []          # per-TLC-run records
        self.action_counts = {}   # trace/replay action coverage
        self.extra = {}
        self.violations = []      # (sig, detail, path)
        self.known_hits = {}      # finding id -> count
        self._findings = [f for f in load_findings() if f.get("property") == pid]
        self._nviol = 0
        os.makedirs(os.path.join(OUT, pid), exist_ok=True)
        for fn in os.listdir(os.path.join(OUT, pid)):
            os.unlink(os.path.join(OUT, pid, fn))

    # ---- model side
    def model(self, name, res, constants=None, expect_actions=None):
        self.states += res.distinct
        self.transitions += res.generated
        rec = {"model": name, "distinct_states": res.distinct, "states_generated": res.generated,
               "depth": res.depth, "wall_s": round(res.wall_s, 2)}
        if constants:
            rec["constants"] = constants
        if res.coverage:
            rec["action_coverage"] = res.coverage
        if res.fp_collision:
            rec["fingerprint_collision_probability"] = res.fp_collision
        self.models.append(rec)

    # ---- implementation side
    def count_actions(self, names):
        for n in names:
            self.action_counts[n] = self.action_counts.get(n, 0) + 1

    def sample(self, s, cap=4):
        if len(self.samples) < cap:
            self.samples.append(s)

    def assume(self, *texts):
        for t in texts:
            if t not in self.assumptions:
                self.assumptions.append(t)

    def violation(self, sig: dict, detail: dict):
        """Register a violation; returns True if it is a listed known finding."""
        for f in self._findings:
            if _matches(sig, f):
                self.known_hits[f["id"]] = self.known_hits.get(f["id"], 0) + 1
                return True
        self._nviol += 1
        path = os.path.join(OUT, self.pid, f"{self._nviol}.json")
        if self._nviol <= 20:
            with open(path, "w") as fh:
                json.dump({"property": self.pid, "signature": sig, "detail": detail,
                           "seed": self.seed, "tier": self.tier}, fh, indent=1, default=str)
        self.violations.append((sig, detail, path))
        return False

    def finish(self) -> int:
        wall = time.time() - self.t0
        cov = {
            "states": self.states,
            "transitions": self.transitions,
            "traces_validated_against_impl": self.traces,
            "replays_into_impl": self.replays,
            "samples": self.samples or ["(no sample recorded)"],
            "models": self.models,
            "impl_action_counts": self.action_counts,
            "known_finding_hits": self.known_hits,
        }
        cov.update(self.extra)
        ev = {
            "property_id": self.pid,
            "tier": self.tier,
            "seed": self.seed,
            "level": self.level,
            "coverage": cov,
            "assumptions": self.assumptions,
            "wall_s": round(wall, 2),
            "violations": len(self.violations),
        }
        os.makedirs(EVIDENCE, exist_ok=True)
        with open(os.path.join(EVIDENCE, f"{self.pid}.json"), "w") as f:
            json.dump(ev, f, indent=1, default=str)
        for f in self._findings:
            if f["id"] in self.known_hits:
                print(f"KNOWN-FINDING: property={self.pid} {f['what']} [{f['id']}, hits={self.known_hits[f['id']]}]")
        seen = set()
        for sig, detail, path in self.violations:
            key = json.dumps(sig, sort_keys=True, default=str)
            if key in seen:
                continue
            seen.add(key)
            if len(seen) <= 10:
                print(f"VIOLATION property={self.pid} replay={path}")
                print(f"  signature: {key}")
        print(f"[{self.pid}] tier={self.tier} seed={self.seed} states={self.states} transitions={self.transitions} "
              f"traces={self.traces} replays={self.replays} violations={len(self.violations)} wall={wall:.1f}s")
        sys.stdout.flush()
        return 1 if self.violations else 0
