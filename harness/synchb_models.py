"""Constant tables for SyncHB model checking."""
import os
import tempfile

from harness import tlc

INV = ["RungFilledByDistinctTrials", "ResumeOnlyAfterRungComplete", "PromotedAreTopK", "NextJobNeverBlocks",
       "PauseAtMilestone", "IdsInSequence", "RemovableOnlyNonPromoted", "BracketsCycleOffsets", "RungAccounting",
       "SuggestEnabled"]
FLAG_INV = {
    "slot_handed_twice": "RungFilledByDistinctTrials", "rung_overfilled": "RungFilledByDistinctTrials", "trial_twice_in_rung": "RungFilledByDistinctTrials",
    "wrong_level": "RungFilledByDistinctTrials", "new_trial_in_upper_rung": "RungFilledByDistinctTrials",
    "resume_in_lowest_rung": "RungFilledByDistinctTrials", "job_outside_current_rung": "RungFilledByDistinctTrials", "resume_outside_first_bracket": "RungFilledByDistinctTrials",
    "resume_before_rung_complete": "ResumeOnlyAfterRungComplete", "resume_not_paused": "ResumeOnlyAfterRungComplete",
    "promoted_not_top": "PromotedAreTopK", "promoted_from_elsewhere": "PromotedAreTopK",
    "scheduler_raised": "NextJobNeverBlocks", "suggest_refused": "NextJobNeverBlocks", "new_bracket_while_free": "NextJobNeverBlocks",
    "pause_at_milestone": "PauseAtMilestone", "decide_off_milestone": "PauseAtMilestone",
    "wrong_max_resource_attr": "PauseAtMilestone", "trial_id_sequence": "IdsInSequence",
    "removable_but_resumable": "RemovableOnlyNonPromoted", "resume_after_removable": "RemovableOnlyNonPromoted",
    "offsets_not_cycling": "BracketsCycleOffsets", "failed_promoted": "FailedNeverPromoted", "failed_promoted_too_few_valid": "FailedNeverPromoted",
}
SYSTEMS = {
    "sh31": [[(3, 1), (1, 3)]],
    "hb31": [[(3, 1), (1, 3)], [(2, 3)]],
    "hb421": [[(4, 1), (2, 2), (1, 4)], [(3, 2), (1, 4)], [(3, 4)]],
    "cust": [[(3, 1), (2, 2), (1, 3)], [(2, 2), (1, 3)]],
    "sh22": [[(2, 1), (1, 2)]],
    "de31": [[(3, 1), (1, 3)], [(1, 3)]],
    "de321": [[(3, 1), (2, 2), (1, 4)], [(2, 2), (1, 4)], [(1, 4)]],
    "de31one": [[(3, 1), (1, 3)]],
    "de321one": [[(3, 1), (2, 2), (1, 4)]],
    "de321two": [[(3, 1), (2, 2), (1, 4)], [(2, 2), (1, 4)]],
}


def base(**kw):
    c = dict(NT=5, SysName="hb31", IsMin=True, MRA=True, Vals={0, 1, 2}, Faults=True, MaxRun=2, MaxFaults=1, DE=False, PR=True, WithNaN=False)
    c.update(kw)
    return c


def run_mc(constants, invariants=INV, timeout=1800):
    fd, path = tempfile.mkstemp(prefix="SyncHB_MC_", suffix=".cfg")
    os.close(fd)
    tlc.write_cfg(path, spec="Spec", constants=constants, invariants=invariants, constraints=["Workers"])
    try:
        return tlc.run("SyncHB_MC", path, workers=16, timeout=timeout)
    finally:
        os.unlink(path)
