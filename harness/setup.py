"""MANIFEST.setup_cmd: nothing to compile; parse every specification with SANY and import the code under test."""
import glob
import os
import sys

from harness import tlc


def main():
    mods = sorted(os.path.basename(p)[:-4] for p in glob.glob(os.path.join(tlc.SPECS, "*.tla")))
    for m in mods:
        tlc.sany(m)
    from harness import shim  # noqa
    import syne_tune
    print(f"setup ok: {len(mods)} TLA+ modules parse; syne_tune from {os.path.dirname(syne_tune.__file__)}")


if __name__ == "__main__":
    try:
        main()
    except Exception as e:
        print("setup failed:", e)
        sys.exit(1)
