"""Generic twin comparison judged by specs/Twin.tla."""
import json
import os
import re
import tempfile

from harness import tlc

_RE_F = re.compile(r'<<\s*"@@FLG@@",\s*(\d+),\s*\{([^{}]*)\}\s*>>')
_RE_D = re.compile(r'<<\s*"@@DIFF@@",\s*(\d+),\s*(\d+)\s*>>')


def judge(rep, runs, tag, sig_extra=None):
    """runs: list of {"ev": [{"same", "excused"}], "crashed": bool, "meta": ...}"""
    if not runs:
        return {}
    fd, path = tempfile.mkstemp(prefix="twin_", suffix=".ndjson")
    with os.fdopen(fd, "w") as f:
        for r in runs:
            f.write(json.dumps({"ev": [{"same": bool(e["same"]), "excused": bool(e.get("excused", False))} for e in r["ev"]],
                                "crashed": bool(r.get("crashed", False))}) + "\n")
    try:
        res = tlc.run("Twin", "Twin.cfg", workers=1, timeout=900, env={"TRACE_FILE": path})
    finally:
        os.unlink(path)
    rep.states += res.distinct
    rep.transitions += res.generated
    flags = {int(m.group(1)): set(re.findall(r'"([^"]+)"', m.group(2))) for m in _RE_F.finditer(res.out)}
    diffs = {int(m.group(1)): int(m.group(2)) for m in _RE_D.finditer(res.out)}
    if len(flags) != len(runs):
        raise RuntimeError(f"[{tag}] Twin judged {len(flags)} of {len(runs)} runs")
    counts = {}
    for i, r in enumerate(runs):
        rep.traces += 1
        for f in sorted(flags[i + 1]):
            counts[f] = counts.get(f, 0) + 1
            sig = {"check": "twin", "flag": f, "campaign": tag}
            if sig_extra:
                sig.update(sig_extra(r))
            d = diffs.get(i + 1, 0)
            rep.violation(sig, {"meta": r.get("meta"), "first_difference_at": d,
                                "step": r["ev"][d - 1] if 0 < d <= len(r["ev"]) else None})
    rep.replays += len(runs)
    return counts
