"""Constant tables of the TunerLoop model-checking configurations (single source of truth)."""
import os
import tempfile

from harness import tlc

BASE = dict(NT=2, NW=2, MaxRep=2, MaxRuns=2, MaxFail=1, Kind="pause", Async=True, Wait=False, Del=True,
            FailB=1, ExtB=0, CKind="script", K=0, EmptyExit=False, MayExhaust=False, R3=True, R13=True, R8=True, Sjwd=True, SpecRm=False, K2=0, Linger=False)

ALL_INVARIANTS = {
    "C01": ["WorkerBudget", "IdsInSequence", "LifeCycle", "ResumeOnlyPaused", "CallbackProtocol"],
    "C02": ["DeliveredIsPrefix", "NothingAfterDecision", "ResumeStartsNewRun", "CompleteMeansAll"],
    "C12": ["NoStartAfterStop", "EndsOnCriterion", "NothingRunningAtReturn", "CountersMatch"],
    "C13": ["FailureContained", "FailureLimit", "FailureNotifiedOnce"],
    "C20": ["DeleteOnlyWhenDead", "CopySourceExists", "ResumeSourceExists", "StopPauseDecided"],
}

# flag -> invariant name (TunerLoop.tla); used to name the failing clause of a trace
FLAG_INV = {
    "worker_budget": "WorkerBudget", "id_sequence": "IdsInSequence",
    "stop_not_running": "LifeCycle", "pause_not_running": "LifeCycle", "start_after_end": "LifeCycle",
    "resume_not_paused": "ResumeOnlyPaused", "unexpected_exception": "LifeCycle",
    "protocol_add": "CallbackProtocol", "protocol_remove": "CallbackProtocol", "protocol_complete": "CallbackProtocol",
    "protocol_error": "CallbackProtocol", "error_after_remove": "CallbackProtocol", "protocol_resume": "CallbackProtocol",
    "result_outside_run": "CallbackProtocol", "remove_without_decision": "CallbackProtocol",
    "result_after_end": "CallbackProtocol", "completed_unregistered": "CompleteMeansAll",
    "gap_or_dup": "DeliveredIsPrefix", "phantom": "DeliveredIsPrefix", "after_decision": "NothingAfterDecision",
    "stale_hidden_tail": "ResumeStartsNewRun", "stale_duplicate": "ResumeStartsNewRun",
    "complete_missing": "CompleteMeansAll", "complete_not_exited": "CompleteMeansAll",
    "start_after_stop": "NoStartAfterStop", "loop_after_stop": "NoStartAfterStop",
    "criterion_mismatch": "EndsOnCriterion", "ended_early": "EndsOnCriterion", "overshoot": "EndsOnCriterion",
    "left_running": "NothingRunningAtReturn", "no_stop_all": "NothingRunningAtReturn", "counters": "CountersMatch",
    "error_not_failed": "FailureContained", "crash_registered_as_success": "FailureContained", "resume_failed_run": "FailureContained",
    "failure_limit": "FailureLimit", "failure_not_named": "FailureLimit", "failure_not_notified": "FailureNotifiedOnce",
    "delete_live": "DeleteOnlyWhenDead", "copy_missing": "CopySourceExists", "copy_missing_stopped_while_queued": "CopySourceExists", "resume_ckpt_missing": "ResumeSourceExists", "checkpoint_not_found_by_worker": "ResumeSourceExists",
    "checkpoint_unexpected": "ResumeSourceExists",
    "stop_without_decision": "StopPauseDecided", "pause_without_decision": "StopPauseDecided",
}
PROP_FLAGS = {p: sorted(f for f, i in FLAG_INV.items() if i in invs) for p, invs in ALL_INVARIANTS.items()}
PROP_FLAGS["C01"] = sorted(set(PROP_FLAGS["C01"]) | {"completed_unregistered"})                 # CallbackProtocol
PROP_FLAGS["C13"] = sorted(set(PROP_FLAGS["C13"]) | {"protocol_error", "unexpected_exception"})   # FailureNotifiedOnce


def mc_configs(tier):
    """name -> constants.  Sizes measured on 16 cores are in DESIGN.md section 5.1."""
    c = {}
    c["pause_2t"] = dict(BASE)
    c["stop_3t"] = dict(BASE, NT=3, Kind="stop", MaxRuns=1, FailB=0)
    c["stop_fail_ext"] = dict(BASE, NT=2, Kind="stop", MaxRuns=1, FailB=1, ExtB=1, EmptyExit=True, MaxFail=0)
    c["sync_sched"] = dict(BASE, NT=3, Kind="stop", MaxRuns=1, Async=False, FailB=0)
    c["wait_done"] = dict(BASE, NT=2, Kind="pause", Wait=True)
    # the failure limit is exceeded while another trial is still running and the loop waits for it
    c["wait_fail"] = dict(BASE, NT=3, Kind="stop", MaxRuns=1, Wait=True, FailB=2, MaxFail=0)
    c["crit_started"] = dict(BASE, NT=3, Kind="stop", MaxRuns=1, CKind="started", K=2, FailB=1)
    c["crit_completed"] = dict(BASE, NT=3, Kind="stop", MaxRuns=1, CKind="completed", K=0, FailB=1)
    c["crit_finished"] = dict(BASE, NT=3, Kind="stop", MaxRuns=1, CKind="finished", K=1, FailB=1, MaxFail=2)
    c["crit_evals"] = dict(BASE, NT=2, Kind="pause", CKind="evals", K=2, FailB=0)
    c["crit_minmetric"] = dict(BASE, NT=3, Kind="stop", MaxRuns=1, CKind="minmetric", K=4, FailB=0)
    c["crit_cost"] = dict(BASE, NT=3, Kind="stop", MaxRuns=1, CKind="cost", K=3, FailB=0)
    c["exhaust"] = dict(BASE, NT=2, Kind="pause", MayExhaust=True, FailB=0)
    c["ask_backend"] = dict(BASE, NT=3, Kind="stop", MaxRuns=1, FailB=1, Sjwd=False)
    c["ask_backend_pause"] = dict(BASE, NT=2, Kind="pause", FailB=0, Sjwd=False)
    c["spec_removal"] = dict(BASE, NT=2, Kind="pause", FailB=0, SpecRm=True)
    c["ask_linger"] = dict(BASE, NT=4, NW=3, Kind="stop", MaxRuns=1, MaxRep=1, FailB=0, Sjwd=False, Linger=True)
    c["pbt_3t"] = dict(BASE, NT=3, Kind="pbt", MaxRuns=1, FailB=0)
    if tier == "thorough":
        # (sizes measured on 16 cores: 1.5 M / 12 s, 9.5 M / 47 s, 9.8 M / 51 s, 1.0 M / 8 s; three trials with two reports
        #  and two runs each do not finish within 10 minutes since the clone queue, the busy poll and the statistics were added)
        c["pause_3t_1rep"] = dict(BASE, NT=3, MaxRep=1)
        c["pause_2t_3rep"] = dict(BASE, MaxRep=3)
        c["pause_2t_3runs"] = dict(BASE, MaxRuns=3)
        c["nw3"] = dict(BASE, NT=3, NW=3, Kind="stop", MaxRuns=1)
        c["stop_4t"] = dict(BASE, NT=4, Kind="stop", MaxRuns=1, MaxRep=2, FailB=1)
    return c


def write_mc_cfg(constants, invariants, spec="Spec", properties=()):
    fd, path = tempfile.mkstemp(prefix="TunerLoop_MC_", suffix=".cfg")
    os.close(fd)
    tlc.write_cfg(path, spec=spec, constants=constants, invariants=invariants, properties=properties)
    return path
