"""Batch trace validation: traces -> ndjson -> <Spec>_Trace under TLC -> per-trace verdict."""
import json
import os
import re
import tempfile
from typing import Dict, List

from harness import tlc

_RE_P = re.compile(r'<<\s*"@@P@@",\s*(\d+),\s*(\d+)\s*>>')
_RE_S = re.compile(r'<<\s*"@@SFL@@",\s*(\d+),\s*(?:(\d+),\s*)?\{([^{}]*)\}\s*>>')   # state-predicate flags (tid, [l,] set)
_RE_F = re.compile(r'<<\s*"@@FLG@@",\s*(\d+),\s*\{([^{}]*)\}\s*>>')   # TLC wraps long values over lines


class Verdict:
    def __init__(self, need):
        self.need = need
        self.maxl = 0
        self.flags = None   # None = trace not consumed completely
        self.sflags = {}    # state-predicate flags -> position of the first state that raised them

    @property
    def consumed(self):
        return self.flags is not None


def validate(module: str, cfg: str, traces: List[dict], timeout=900, batch=1500) -> Dict[int, Verdict]:
    """traces: list of {"id", "conf", "ev"}; ids must be 1..n in order within a batch (re-numbered here)."""
    out: Dict[int, Verdict] = {}
    stats = {"distinct": 0, "generated": 0, "wall_s": 0.0, "runs": 0}
    for b0 in range(0, len(traces), batch):
        chunk = traces[b0:b0 + batch]
        fd, path = tempfile.mkstemp(prefix="traces_", suffix=".ndjson")
        with os.fdopen(fd, "w") as f:
            for i, tr in enumerate(chunk):
                f.write(json.dumps({"id": i + 1, "conf": tr["conf"], "ev": tr["ev"]}) + "\n")
        try:
            r = tlc.run(module, cfg, workers=1, timeout=timeout, env={"TRACE_FILE": path})
        finally:
            os.unlink(path)
        if r.violated or r.deadlock:
            raise tlc.TLCError(f"trace spec {module} reported {r.violated}: trace specs carry no invariants")
        stats["distinct"] += r.distinct
        stats["generated"] += r.generated
        stats["wall_s"] += r.wall_s
        stats["runs"] += 1
        vs = {i + 1: Verdict(len(tr["ev"]) + 1) for i, tr in enumerate(chunk)}
        # TLC may glue its own progress messages to a PrintT line: scan the whole output
        for m in _RE_P.finditer(r.out):
            v = vs[int(m.group(1))]
            v.maxl = max(v.maxl, int(m.group(2)))
        for m in _RE_F.finditer(r.out):
            vs[int(m.group(1))].flags = set(re.findall(r'"([^"]+)"', m.group(2)))
        for m in _RE_S.finditer(r.out):
            v = vs[int(m.group(1))]
            for f in re.findall(r'"([^"]+)"', m.group(3)):
                v.sflags.setdefault(f, int(m.group(2)) if m.group(2) else 0)
        for v in vs.values():
            if v.flags is not None:
                v.flags |= set(v.sflags)
        for i, tr in enumerate(chunk):
            out[b0 + i] = vs[i + 1]
    validate.last_stats = stats
    return out
