"""Fresh-process twin: executes one scheduler history (or one simulated experiment) and prints its outputs as JSON.
Run twice with different PYTHONHASHSEED / global-RNG perturbations; the outputs must be byte-identical (C11)."""
import json
import random
import sys


def main():
    spec = json.loads(sys.argv[1])
    from harness import shim  # noqa: F401
    import numpy as np
    np.random.seed(spec.get("np_seed", 0))
    random.seed(spec.get("py_seed", 0))
    if spec["what"] == "pasha_ties":
        # PASHA on tie-heavy learning curves (values from a small discrete set): sequential trials, each run until the
        # scheduler pauses / stops it; the trace of all suggestions and decisions is the output
        import datetime
        from syne_tune.backend.trial_status import Trial
        from syne_tune.config_space import uniform
        from syne_tune.optimizer.schedulers import HyperbandScheduler
        levels = [0.1, 0.13, 0.2, 0.35, 0.5, 0.51, 0.7, 0.9]
        max_epochs = 16
        out = []
        for ds in range(spec["n"]):
            table = np.random.RandomState(ds).choice(levels, size=(200, max_epochs + 1))
            cs = {"x": uniform(0, 1), "epochs": max_epochs}
            s = HyperbandScheduler(cs, searcher="random", type="pasha", metric="loss", mode="min", resource_attr="epoch",
                                   max_resource_attr="epochs", grace_period=1, reduction_factor=2, random_seed=spec["seed"],
                                   search_options={"debug_log": False})
            trace, trials, res, nid = [], {}, {}, 0
            for _ in range(spec["suggests"]):
                sg = s.suggest(nid)
                if sg is None:
                    break
                if sg.spawn_new_trial_id:
                    tid = nid
                    nid += 1
                    trials[tid] = Trial(trial_id=tid, config=sg.config, creation_time=datetime.datetime(2024, 1, 1))
                    res[tid] = 0
                    trace.append(["start", tid])
                    s.on_trial_add(trials[tid])
                else:
                    tid = sg.checkpoint_trial_id
                    trace.append(["resume", tid])
                while res[tid] < max_epochs:
                    res[tid] += 1
                    d = s.on_trial_result(trials[tid], {"loss": float(table[tid, res[tid]]), "epoch": res[tid]})
                    trace.append(["result", tid, res[tid], d])
                    if d != "CONTINUE":
                        s.on_trial_remove(trials[tid])
                        break
                if res[tid] >= max_epochs and d == "CONTINUE":
                    s.on_trial_complete(trials[tid], {"loss": float(table[tid, max_epochs]), "epoch": max_epochs})
            out.append(trace)
        print("@@OUT@@" + json.dumps(out))
    elif spec["what"] == "scheduler":
        from harness.drivers import searcher as DS
        ep = DS.Episode(spec["kind"], spec["space"], spec.get("p2e"), spec["seed"])
        for i, step in enumerate(spec["history"]):
            if step["a"] == "Restore":
                np.random.seed(spec.get("np_seed", 0) + i)
                random.seed(spec.get("py_seed", 0) + i)
                np.random.rand(3), random.random()
                continue
            ep.step(step)
        print("@@OUT@@" + json.dumps(ep.outputs, default=repr))
    else:
        from harness.drivers import simtuner as S, simbackend as SB
        u = SB.UNIT
        conf = {"tab": S.big_table(), "dres": u, "dfin": u, "dstop": u, "dstart": u, "dcstop": u, "sleep": 16 * u,
                "ckpt": True, "mra": spec["kind"] != "hb_promotion_nomra", "seed": 0}
        # equal seeds: the back-end's table seed is fixed (seed=None would draw it from numpy's global generator)
        import syne_tune.blackbox_repository.simulated_tabular_backend as stb
        orig = stb.UserBlackboxBackend.__init__

        def init(self, *a, **k):
            k["seed"] = 1
            orig(self, *a, **k)
        stb.UserBlackboxBackend.__init__ = init
        sim_trace, tl_ev, tuner = S.run(spec["kind"], spec["seed"], spec.get("n_workers", 2), conf,
                                        {"max_num_trials_started": 8})
        rows = [e["res"] for e in sim_trace["ev"] if e["a"] == "Fetch" and e["res"]]
        print("@@OUT@@" + json.dumps(rows))


if __name__ == "__main__":
    main()
