"""Fresh-process twin: executes one scheduler history (or one simulated experiment) and prints its outputs as JSON.
Run twice with different PYTHONHASHSEED / global-RNG perturbations; the outputs must be byte-identical (C11)."""
import json
import random
import sys


def main():
    spec = json.loads(sys.argv[1])
    from harness import shim  # noqa: F401
    import numpy as np
    np.random.seed(spec.get("np_seed", 0))
    random.seed(spec.get("py_seed", 0))
    if spec["what"] == "scheduler":
        from harness.drivers import searcher as DS
        ep = DS.Episode(spec["kind"], spec["space"], spec.get("p2e"), spec["seed"])
        for i, step in enumerate(spec["history"]):
            if step["a"] == "Restore":
                np.random.seed(spec.get("np_seed", 0) + i)
                random.seed(spec.get("py_seed", 0) + i)
                np.random.rand(3), random.random()
                continue
            ep.step(step)
        print("@@OUT@@" + json.dumps(ep.outputs, default=repr))
    else:
        from harness.drivers import simtuner as S, simbackend as SB
        u = SB.UNIT
        conf = {"tab": S.big_table(), "dres": u, "dfin": u, "dstop": u, "dstart": u, "dcstop": u, "sleep": 16 * u,
                "ckpt": True, "mra": spec["kind"] != "hb_promotion_nomra", "seed": 0}
        # equal seeds: the back-end's table seed is fixed (seed=None would draw it from numpy's global generator)
        import syne_tune.blackbox_repository.simulated_tabular_backend as stb
        orig = stb.UserBlackboxBackend.__init__

        def init(self, *a, **k):
            k["seed"] = 1
            orig(self, *a, **k)
        stb.UserBlackboxBackend.__init__ = init
        sim_trace, tl_ev, tuner = S.run(spec["kind"], spec["seed"], spec.get("n_workers", 2), conf,
                                        {"max_num_trials_started": 8})
        rows = [e["res"] for e in sim_trace["ev"] if e["a"] == "Fetch" and e["res"]]
        print("@@OUT@@" + json.dumps(rows))


if __name__ == "__main__":
    main()
