"""Driving real SynchronousHyperbandScheduler objects along SyncHB schedules."""
from datetime import datetime
from typing import Dict, List, Optional

from harness import shim  # noqa: F401
from syne_tune.backend.trial_status import Trial
from syne_tune.config_space import uniform
from syne_tune.optimizer.schedulers.synchronous import SynchronousHyperbandScheduler

METRIC, RES, MAXRES = "m", "epoch", "epochs"


def make_scheduler(conf, seed, searcher="random", **extra):
    max_level = max(lv for rungs in conf["sys"] for (_, lv) in rungs)
    cs = {"x": uniform(0.0, 1.0), "y": uniform(0.0, 1.0), MAXRES: max_level}
    kw = dict(bracket_rungs=[[tuple(r) for r in rungs] for rungs in conf["sys"]], metric=METRIC,
              mode="min" if conf["min"] else "max", resource_attr=RES, searcher=searcher, random_seed=seed)
    if conf["mra"]:
        kw["max_resource_attr"] = MAXRES
    else:
        kw["max_resource_level"] = max_level
    kw.update(extra)
    if conf.get("de"):
        from syne_tune.optimizer.schedulers.synchronous import DifferentialEvolutionHyperbandScheduler
        del kw["bracket_rungs"], kw["searcher"]
        return DifferentialEvolutionHyperbandScheduler(
            cs, rungs_first_bracket=[tuple(r) for r in conf["sys"][0]], num_brackets_per_iteration=len(conf["sys"]),
            support_pause_resume=bool(conf.get("pr", True)), search_options={"debug_log": False}, **kw)
    return SynchronousHyperbandScheduler(cs, **kw)


class Episode:
    def __init__(self, conf, seed, sched=None):
        self.conf = conf
        self.sched = sched if sched is not None else make_scheduler(conf, seed)
        self.ev: List[dict] = []
        self.trials: Dict[int, Trial] = {}
        self.state: Dict[int, str] = {}
        self.lastr: Dict[int, int] = {}
        self.level: Dict[int, int] = {}
        self.next_id = 0
        self.crashed = False

    def _crash(self, where, exc):
        self.crashed = True
        self.ev.append({"a": "Crash", "where": where, "exc": repr(exc)[:300]})

    def _removable(self):
        if not hasattr(self.sched, "trials_checkpoints_can_be_removed"):
            return
        try:
            rem = self.sched.trials_checkpoints_can_be_removed()
        except Exception as exc:
            return self._crash("trials_checkpoints_can_be_removed", exc)
        if rem:
            self.ev.append({"a": "Removable", "S": [int(x) for x in rem]})

    def suggest(self):
        if self.crashed:
            return
        try:
            s = self.sched.suggest(trial_id=self.next_id)
        except Exception as exc:
            return self._crash("suggest", exc)
        if s is None:
            # the configuration space is continuous: nothing is exhausted, the scheduler refused the job
            self.ev.append({"a": "NoJob"})
            return
        if s.spawn_new_trial_id:
            t = self.next_id
            self.next_id += 1
            trial = Trial(trial_id=t, config=s.config, creation_time=datetime.now())
            self.trials[t] = trial
            try:
                self.sched.on_trial_add(trial)
            except Exception as exc:
                return self._crash("on_trial_add", exc)
            self.lastr[t] = 0
            isnew = True
        else:
            t = int(s.checkpoint_trial_id)
            if s.config is not None and t in self.trials:
                self.trials[t].config = s.config
            isnew = False
        pend = self.sched._trial_to_pending_slot[t]
        b, slot = (pend.bracket_id, pend) if self.conf.get("de") else pend     # DEHB keeps an extended slot object
        mval = int(s.config.get(MAXRES, 0)) if (self.conf["mra"] and s.config is not None) else 0
        self.state[t] = "running"
        self.level[t] = int(slot.level)
        self.ev.append({"a": "Job", "b": int(b) + 1, "i": int(slot.rung_index) + 1, "k": int(slot.slot_index) + 1,
                        "lv": int(slot.level), "t": t, "isnew": isnew, "mval": mval})

    def report(self, t, v):
        if self.crashed or self.state.get(t) != "running":
            return
        r = self.lastr[t] + 1
        if r > self.level[t]:
            return
        try:
            # (value -1 is the specification's NaN: a trial that reports "not a number" without failing)
            d = self.sched.on_trial_result(self.trials[t], {METRIC: float("nan") if v == -1 else float(v), RES: r})
        except Exception as exc:
            return self._crash("on_trial_result", exc)
        self.lastr[t] = r
        self.ev.append({"a": "Result", "t": t, "r": r, "v": v, "d": d})
        if d in ("PAUSE", "STOP"):
            self.state[t] = "paused" if d == "PAUSE" else "stopped"
            try:
                self.sched.on_trial_remove(self.trials[t])
            except Exception as exc:
                return self._crash("on_trial_remove", exc)
        self._removable()

    def fail(self, t):
        if self.crashed or self.state.get(t) != "running":
            return
        try:
            self.sched.on_trial_error(self.trials[t])
        except Exception as exc:
            return self._crash("on_trial_error", exc)
        self.state[t] = "failed"
        self.ev.append({"a": "Fail", "t": t})
        self._removable()

    def trace(self, tid):
        c = self.conf
        return {"id": tid, "conf": {"sys": [[list(r) for r in rungs] for rungs in c["sys"]], "min": c["min"], "mra": c["mra"],
                                    "vals": [0], "faults": True, "de": bool(c.get("de", False)), "pr": bool(c.get("pr", True))}, "ev": self.ev}


def run_schedule(conf, schedule, seed) -> Episode:
    ep = Episode(conf, seed)
    for h in schedule:
        if h["a"] == "Suggest":
            ep.suggest()
        elif h["a"] == "Report":
            ep.report(h["t"], h["v"])
        elif h["a"] == "Fail":
            ep.fail(h["t"])
    return ep
