"""Driving the real simulator back-end (UserBlackboxBackend over a BlackboxTabular built from the
specification's table) along SimBackend call sequences; time is projected to integer micro-seconds."""
from typing import Dict, List

import numpy as np
import pandas as pd

from harness import shim  # noqa: F401
import syne_tune.backend.simulator_backend.time_keeper as tk_mod
from syne_tune.backend.simulator_backend.simulator_backend import SimulatorConfig
from syne_tune.blackbox_repository.blackbox_tabular import BlackboxTabular
from syne_tune.blackbox_repository.simulated_tabular_backend import UserBlackboxBackend
from syne_tune.config_space import randint
from syne_tune.constants import ST_TUNER_TIME

TICK = 1e-6          # one tick of the trace = 1 micro-second
UNIT = 15625         # model tick (1/64 s, exact in binary floating point) in micro-seconds


class FrozenClock:
    """Replaces the ``time`` module inside time_keeper.py: real time passes outside the back-end only when the harness
    says so (``outside``), in whole ticks."""
    def __init__(self):
        self.t = 1_000_000.0

    def time(self):
        return self.t

    def outside(self, ticks_: int):
        self.t += ticks_ * TICK


def freeze_real_time():
    tk_mod.time = FrozenClock()
    return tk_mod.time


# tables of SimBackend_MC (elapsed in model ticks) -> micro-seconds
TABS = {
    "a": [[[(111, 100), (112, 250), (113, 400)], [(121, 120), (122, 240), (123, 500)]],
          [[(211, 300), (212, 310), (213, 900)], [(221, 200), (222, 150), (223, 155)]]],
    "b": [[[(111, 5), (112, 100)]], [[(211, 70), (212, 140)]]],
}
# in the real runs one model tick = 1 ms for table "a"/"b" is replaced by UNIT so that sums are exact


def table_us(name, scale=UNIT):
    return [[[(m, e * scale) for (m, e) in lv] for lv in cfg] for cfg in TABS[name]]


def make_blackbox(tab_us):
    ncfg, nseed, nlev = len(tab_us), len(tab_us[0]), len(tab_us[0][0])
    hps = pd.DataFrame({"hp_a": list(range(1, ncfg + 1)), "hp_b": [0] * ncfg})
    ev = np.zeros((ncfg, nseed, nlev, 2))
    for c in range(ncfg):
        for s in range(nseed):
            for l in range(nlev):
                ev[c, s, l, 0] = tab_us[c][s][l][0]
                ev[c, s, l, 1] = tab_us[c][s][l][1] * TICK
    return BlackboxTabular(hyperparameters=hps, configuration_space={"hp_a": randint(1, ncfg), "hp_b": randint(0, 1)},
                           fidelity_space={"epoch": randint(1, nlev)}, objectives_evaluations=ev,
                           objectives_names=["m", "elapsed"])


def ticks(x: float) -> int:
    t = round(x / TICK)
    if abs(x / TICK - t) > 1e-3:
        raise RuntimeError(f"time {x!r} is not a whole number of ticks (harness envelope)")
    return int(t)


def make_backend(conf: dict):
    """conf: times in micro-seconds."""
    bb = make_blackbox(conf["tab"])
    sc = SimulatorConfig(delay_on_trial_result=conf["dres"] * TICK, delay_complete_after_final_report=conf["dfin"] * TICK,
                         delay_complete_after_stop=conf["dcstop"] * TICK, delay_start=conf["dstart"] * TICK,
                         delay_stop=conf["dstop"] * TICK)
    be = UserBlackboxBackend(blackbox=bb, elapsed_time_attr="elapsed", max_resource_attr="epochs" if conf["mra"] else None,
                             seed=(conf["seed"] - 1) if conf["seed"] > 0 else None, support_checkpointing=conf["ckpt"],
                             simulator_config=sc, tuner_sleep_time=conf["sleep"] * TICK)
    return be


def trace_conf(conf):
    return {"tab": [[[list(x) for x in lv] for lv in cfg] for cfg in conf["tab"]], "dres": conf["dres"], "dfin": conf["dfin"],
            "dstop": conf["dstop"], "dstart": conf["dstart"], "dcstop": conf["dcstop"], "sleep": conf["sleep"],
            "ckpt": conf["ckpt"], "mra": conf["mra"], "eps": 1000, "rep": 10000, "seed": conf["seed"], "dropstale": True, "outs": []}


class Episode:
    def __init__(self, conf, rng_seed=0):
        self.clock = freeze_real_time()
        np.random.seed(rng_seed)     # the back-end draws the table seed of a trial from numpy's global generator
        self.conf = conf
        self.be = make_backend(conf)
        self.be.time_keeper.start_of_time()
        self.ev: List[dict] = []
        self.mode: Dict[int, str] = {}
        self.last_lv: Dict[int, int] = {}
        self.cfg: Dict[int, dict] = {}
        self.crashed = False

    def now(self):
        return ticks(self.be.time_keeper.time())

    def _crash(self, where, exc):
        self.crashed = True
        self.ev.append({"a": "Crash", "where": where, "exc": repr(exc)[:300]})

    def start(self, c, lim):
        if self.crashed:
            return
        config = {"hp_a": c, "hp_b": 0}
        if self.conf["mra"]:
            config["epochs"] = lim
        try:
            trial = self.be.start_trial(config=config)
        except Exception as exc:
            return self._crash("start_trial", exc)
        t = trial.trial_id
        self.mode[t], self.last_lv[t], self.cfg[t] = "running", 0, config
        self.ev.append({"a": "Start", "t": t, "c": c, "lim": lim, "now": self.now()})

    def resume(self, t, lim):
        if self.crashed or self.mode.get(t) != "paused":
            return
        new = dict(self.cfg[t])
        nlev = len(self.conf["tab"][0][0])
        if self.conf["ckpt"] and self.last_lv[t] >= nlev:
            return      # legal envelope: a trial paused at the last level has nothing left to run
        if self.conf["mra"]:
            if lim <= self.last_lv[t]:
                return
            new["epochs"] = lim
        try:
            self.be.resume_trial(t, new_config=new)
        except Exception as exc:
            return self._crash("resume_trial", exc)
        self.cfg[t], self.mode[t] = new, "running"
        self.ev.append({"a": "Resume", "t": t, "lim": lim, "now": self.now()})

    def fetch(self):
        if self.crashed:
            return
        ids = sorted(t for t, m in self.mode.items() if m == "running")
        try:
            _, res = self.be.fetch_status_results(ids)
        except Exception as exc:
            return self._crash("fetch_status_results", exc)
        out = []
        for t, r in res:
            out.append([int(t), int(r["epoch"]), int(round(r["m"])), ticks(r[ST_TUNER_TIME])])
            self.last_lv[int(t)] = int(r["epoch"])
        self.ev.append({"a": "Fetch", "ids": ids, "res": out, "now": self.now()})

    def pause(self, t):
        if self.crashed or self.mode.get(t) != "running" or self.last_lv.get(t, 0) < 1:
            return
        lv = self.last_lv[t]
        try:
            self.be.pause_trial(t, result={"epoch": lv})
        except Exception as exc:
            return self._crash("pause_trial", exc)
        self.mode[t] = "paused"
        self.ev.append({"a": "Pause", "t": t, "lv": lv, "now": self.now()})

    def stop(self, t):
        if self.crashed or self.mode.get(t) != "running":
            return
        try:
            self.be.stop_trial(t)
        except Exception as exc:
            return self._crash("stop_trial", exc)
        self.mode[t] = "stopped"
        self.ev.append({"a": "Stop", "t": t, "now": self.now()})

    def sleep(self):
        if self.crashed:
            return
        # what SimulatorCallback.on_tuning_sleep does
        self.be.time_keeper.advance(self.be.tuner_sleep_time)
        self.ev.append({"a": "Sleep", "now": self.now()})

    def outside(self, d):
        """d model ticks of real time pass outside the back-end (between two of its calls)."""
        if self.crashed:
            return
        self.clock.outside(d * UNIT)
        self.ev.append({"a": "Outside", "d": d * UNIT})

    def step(self, h):
        a = h["a"]
        if a == "Outside":
            return self.outside(h["d"])
        if a == "Start":
            self.start(h["c"], h["lim"])
        elif a == "Resume":
            self.resume(h["t"], h["lim"])
        elif a == "Fetch":
            self.fetch()
        elif a == "Pause":
            self.pause(h["t"])
        elif a == "Stop":
            self.stop(h["t"])
        elif a == "Sleep":
            self.sleep()

    def trace(self, tid):
        return {"id": tid, "conf": trace_conf(self.conf), "ev": self.ev}
