"""Driving real ``HyperbandScheduler`` objects along AsyncHB schedules and recording AsyncHB events.

The schedule (from TLC or a seeded generator) says who is asked for work when, who reports
which value next, who crashes.  What the scheduler answers (bracket, promoted trial, milestone,
decision, PASHA cap, rung sizes) is logged and judged by AsyncHB_Trace.
"""
from typing import Any, Dict, List, Optional

from harness import shim  # noqa: F401
from syne_tune.backend.trial_status import Trial
from syne_tune.config_space import uniform
from syne_tune.optimizer.schedulers import HyperbandScheduler
from datetime import datetime

METRIC, RES, COST, MAXRES = "m", "epoch", "cost", "epochs"


def make_scheduler(conf: dict, seed: int, searcher="random", **extra):
    cs = {"x": uniform(0.0, 1.0), "y": uniform(0.0, 1.0), MAXRES: conf["maxt"]}
    kw: Dict[str, Any] = dict(
        searcher=searcher, metric=METRIC, mode="min" if conf["min"] else "max", resource_attr=RES,
        type=conf.get("sched_type", conf["type"]), rung_levels=list(conf["levels"]), brackets=conf["nbr"],
        rung_system_per_bracket=conf["perbr"], random_seed=seed,
    )
    if conf["mra"]:
        kw["max_resource_attr"] = MAXRES
    else:
        kw["max_t"] = conf["maxt"]
    if conf["type"] == "cost_promotion":
        kw["cost_attr"] = COST
    if conf["type"] in ("rush_stopping", "rush_promotion"):
        kw["rung_system_kwargs"] = {"num_threshold_candidates": conf["nthr"]}
    if conf.get("sd", "none") != "none":
        kw["searcher_data"] = conf["sd"]
        kw["register_pending_myopic"] = bool(conf.get("myopic", False))
        kw["searcher"] = conf.get("searcher", "bayesopt")
        # model fitting is switched off by construction: get_config stays in its random phase
        kw["search_options"] = {"num_init_random": conf.get("num_init_random", 10000), "debug_log": False}
    kw.update(extra)
    return HyperbandScheduler(cs, **kw)


def rung_sizes(sched) -> List[List[int]]:
    out = []
    for s, rs in enumerate(sched.terminator._rung_systems):
        for rung in rs._rungs:
            out.append([s, rung.level, len(rung)])
    return out


WRONG_CONVENTION = -999


def searcher_state_event(sched) -> dict:
    """Projection of the public ``searcher.state_transformer.state`` to (observations, pending evaluations);
    observation values are mapped back to the reported convention."""
    from syne_tune.optimizer.schedulers.searchers.bayesopt.datatypes.common import INTERNAL_METRIC_NAME
    srch = sched.searcher
    srch = getattr(srch, "_searcher_int", srch)       # DyHPO wraps a GP multi-fidelity searcher
    state = srch.state_transformer.state
    # The data set holds metrics in the MINIMISATION convention: with mode "max" the searcher has to hold a decreasing
    # map (the library's are 1 - x and -x), with "min" none or an increasing one.  Values stored under another
    # convention are projected to WRONG_CONVENTION (no reported value), so the monitor sees them as foreign values.
    mr = srch.map_reward
    if getattr(sched, "mode", "min") == "max":
        rev = mr.reverse if (mr is not None and mr(1.0) < mr(0.0)) else (lambda x: WRONG_CONVENTION)
    else:
        rev = (lambda x: x) if mr is None else (mr.reverse if mr(1.0) > mr(0.0) else (lambda x: WRONG_CONVENTION))
    obs = []
    for ev in state.trials_evaluations:
        vals = ev.metrics.get(INTERNAL_METRIC_NAME, {})
        if isinstance(vals, dict):
            for r, v in vals.items():
                obs.append([int(ev.trial_id), int(r), int(round(rev(v)))])
        else:
            obs.append([int(ev.trial_id), 0, int(round(rev(vals)))])
    pend = [[int(p.trial_id), int(p.resource) if p.resource is not None else 0] for p in state.pending_evaluations]
    return {"a": "SS", "obs": obs, "pend": pend}


def current_cap(sched, conf) -> int:
    if conf["type"] == "pasha":
        return int(sched.terminator._rung_systems[0].current_max_t)
    return conf["maxt"]


class Episode:
    """One scheduler object stepped along a schedule."""

    def __init__(self, conf: dict, seed: int, sched=None, log_rung_sizes=True):
        self.conf = conf
        self.sched = sched if sched is not None else make_scheduler(conf, seed)
        self.ev: List[dict] = []
        self.trials: Dict[int, Trial] = {}
        self.state: Dict[int, str] = {}
        self.lastr: Dict[int, int] = {}
        self.run_from: Dict[int, int] = {}
        self.limit: Dict[int, int] = {}
        self.tot_cost: Dict[int, Dict[int, int]] = {}
        self.next_id = 0
        self.log_rs = log_rung_sizes
        self.crashed = False
        self.last_result: Dict[int, dict] = {}
        self.promotion = conf["type"] in ("promotion", "pasha", "cost_promotion", "rush_promotion")

    def running(self):
        return [t for t, s in self.state.items() if s == "running"]

    def _rs(self):
        if self.log_rs:
            self.ev.append({"a": "RS", "sz": rung_sizes(self.sched)})
        if self.conf.get("sd", "none") != "none":
            self.ev.append(searcher_state_event(self.sched))

    def _crash(self, where, exc):
        """The code under test raised on a legal call: logged as an event, judged by the specification."""
        self.crashed = True
        self.ev.append({"a": "Crash", "where": where, "exc": repr(exc)[:300]})

    def suggest(self) -> Optional[dict]:
        sched, conf = self.sched, self.conf
        if self.crashed:
            return None
        try:
            s = sched.suggest(trial_id=self.next_id)
        except Exception as exc:
            return self._crash("suggest", exc)
        if s is None:
            return None
        if s.spawn_new_trial_id:
            t = self.next_id
            self.next_id += 1
            trial = Trial(trial_id=t, config=s.config, creation_time=datetime.now())
            try:
                sched.on_trial_add(trial)
            except Exception as exc:
                return self._crash("on_trial_add", exc)
            self.trials[t] = trial
            self.state[t], self.lastr[t], self.run_from[t] = "running", 0, 0
            b = int(sched._active_trials[str(t)].bracket)
            mval = int(s.config.get(MAXRES, 0)) if (self.promotion and conf["mra"]) else 0
            self.limit[t] = mval if (self.promotion and conf["mra"]) else conf["maxt"]
            self.tot_cost[t] = {0: 0}
            e = {"a": "Start", "t": t, "b": b, "mval": mval}
        else:
            t = int(s.checkpoint_trial_id)
            rs, b, _ = sched.terminator._get_rung_system(str(t))
            info = rs._running[str(t)]
            frm, to = int(info["resume_from"]), int(info["milestone"])
            mval = int(s.config[MAXRES]) if conf["mra"] and s.config is not None else 0
            if s.config is not None:
                self.trials[t].config = s.config
            self.state[t] = "running"
            self.lastr[t] = frm if conf["ckpt"] else 0
            self.run_from[t] = self.lastr[t]
            self.limit[t] = mval if conf["mra"] else conf["maxt"]
            e = {"a": "Promote", "t": t, "from": frm, "to": to, "b": int(b), "mval": mval}
        self.ev.append(e)
        self._rs()
        return e

    def report(self, t: int, v: int, cinc: int) -> Optional[dict]:
        conf = self.conf
        if self.crashed or self.state.get(t) != "running":
            return None
        r = self.lastr[t] + 1
        if r > self.limit[t] or r > conf["maxt"]:
            return None
        tc = self.tot_cost[t]
        tc.setdefault(r, tc[r - 1] + cinc)       # total cost of reaching level r (fixed the first time r is reached)
        result = {METRIC: float(v), RES: r}
        if conf["type"] == "cost_promotion":
            result[COST] = float(tc[r] - tc[self.run_from[t]])   # the script reports the cost of THIS run
        try:
            d = self.sched.on_trial_result(self.trials[t], result)
        except Exception as exc:
            return self._crash("on_trial_result", exc)
        self.last_result[t] = dict(result)
        self.lastr[t] = r
        e = {"a": "Report", "t": t, "r": r, "v": v, "c": tc[r], "d": d, "cap": current_cap(self.sched, conf)}
        if conf["type"] == "pasha":
            e["eps"] = round(float(self.sched.terminator._rung_systems[0].epsilon), 12)
        self.ev.append(e)
        try:
            if d == "STOP":
                self.state[t] = "stopped"
                self.sched.on_trial_remove(self.trials[t])
            elif d == "PAUSE":
                self.state[t] = "paused"
                self.sched.on_trial_remove(self.trials[t])
        except Exception as exc:
            return self._crash("on_trial_remove", exc)
        self._rs()
        return e

    def complete(self, t: int):
        """The training script ends on its own after its last report (e.g. converged early)."""
        if self.crashed or self.state.get(t) != "running" or self.lastr.get(t, 0) < 1 or t not in self.last_result:
            return None
        try:
            self.sched.on_trial_complete(self.trials[t], dict(self.last_result[t]))
        except Exception as exc:
            return self._crash("on_trial_complete", exc)
        self.state[t] = "stopped"
        self.ev.append({"a": "Complete", "t": t})
        self._rs()

    def error(self, t: int):
        if self.crashed or self.state.get(t) != "running":
            return None
        try:
            self.sched.on_trial_error(self.trials[t])
        except Exception as exc:
            return self._crash("on_trial_error", exc)
        self.state[t] = "failed"
        self.ev.append({"a": "Error", "t": t})
        self._rs()

    def trace(self, tid: int) -> dict:
        c = self.conf
        tconf = {"levels": list(c["levels"]), "maxt": c["maxt"], "nbr": c["nbr"], "perbr": c["perbr"], "type": c["type"],
                 "min": c["min"], "mra": c["mra"], "ckpt": c["ckpt"], "nthr": c.get("nthr", 0), "vals": [0], "costs": [0],
                 "faults": True, "cap0": c["cap0"], "sd": c.get("sd", "none"), "myopic": bool(c.get("myopic", False)), "completes": True}
        return {"id": tid, "conf": tconf, "ev": self.ev}


def conf_from_constants(k: dict) -> dict:
    """TLC constants (AsyncHB_MC) -> driver configuration."""
    levels = sorted(k["LevelsC"])
    conf = {"levels": levels, "maxt": k["MaxT"], "nbr": k["NBr"], "perbr": k["PerBr"], "type": k["Type"], "min": k["IsMin"],
            "mra": k["MRA"], "ckpt": k["Ckpt"], "nthr": k["NThr"], "sd": k.get("SD", "none"), "myopic": k.get("Myopic", False)}
    if k["Type"] == "pasha":
        n = len(levels)
        idx = min(n - 1, 2)
        conf["cap0"] = levels[idx - 1]
    else:
        conf["cap0"] = k["MaxT"]
    return conf


def run_schedule(conf: dict, schedule: List[dict], seed: int) -> Episode:
    ep = Episode(conf, seed)
    for h in schedule:
        if h["a"] == "Suggest":
            ep.suggest()
        elif h["a"] == "Report":
            ep.report(h["t"], h["v"], h.get("c", 0))
        elif h["a"] == "Error":
            ep.error(h["t"])
        elif h["a"] == "Complete":
            ep.complete(h["t"])
    return ep
