"""Binding 3 of the tuner properties: the REAL ``LocalBackend`` (subprocesses, status files, stdout parsing, checkpoint
directories) driven in lock step.

The training script (lockstep_worker.py) is a puppet that executes numbered command files.  The environment schedule of
a TLC-generated behaviour (worker events per observation point) is released right before each observation of the
processes, exactly as with the scripted back-end, and every worker event is acknowledged by the process before the
observation goes on: the run is deterministic although real processes, real files and the real polling code are used.

Recorded events are the TunerLoop vocabulary (the wrappers are the same as in drivers/tunerloop.py)."""
import json
import os
import time
from pathlib import Path
from typing import Dict, List

from harness import shim  # noqa: F401
from harness.drivers.tunerloop import Script, Worker
from syne_tune.backend import LocalBackend
from syne_tune.backend.trial_status import Status

WORKER = Path(__file__).with_name("lockstep_worker.py")
ACK_TIMEOUT = 90.0


class HarnessTimeout(Exception):
    """A worker process did not acknowledge a command (machinery problem, never a verdict)."""
    harness_failure = True


class LockstepLocalBackend(LocalBackend):
    def __init__(self, script: Script, log: list, delete_checkpoints=False, values=None):
        super().__init__(entry_point=str(WORKER), delete_checkpoints=delete_checkpoints, rotate_gpus=False)
        self.script, self.log = script, log
        self.obs = 0
        self.workers: Dict[int, Worker] = {}
        self.ncmd: Dict[int, int] = {}
        self.values = values or (lambda t, r, i: float((7 * t + 3 * r + 5 * i) % 11))
        self._in_stop_all = False
        self._stop_all_set = None
        self.log_vals = False
        self.ext_stopped = set()
        self._mid_log: List[dict] = []
        self._in_poll = False

    # ---- environment: talk to the puppet processes
    def _command(self, t: int, cmd: dict, wait_exit=False):
        n = self.ncmd.get(t, 0)
        self.ncmd[t] = n + 1
        d = self.trial_path(t)
        tmp = d / f".cmd_{n}.tmp"
        tmp.write_text(json.dumps(cmd))
        os.replace(tmp, d / f"cmd_{n}")
        ack = d / f"ack_{n}"
        t0 = time.time()
        while not ack.exists():
            if self.trial_subprocess[t].poll() is not None and not ack.exists():
                raise HarnessTimeout(f"worker of trial {t} died before command {n} {cmd} (code "
                                     f"{self.trial_subprocess[t].returncode})")
            if time.time() - t0 > ACK_TIMEOUT:
                raise HarnessTimeout(f"no acknowledgement of command {n} {cmd} by trial {t}")
            time.sleep(0.002)
        if wait_exit:
            self.trial_subprocess[t].wait(timeout=ACK_TIMEOUT)
        return ack.read_text()

    def _observe(self):
        self._run_events(self.script.wev.get(self.obs, []), self.log)
        self.obs += 1

    def _run_events(self, events, log):
        for (a, t) in events:
            w = self.workers.get(t)
            if w is None or w.state != "busy":
                continue   # not enabled in the real run: skipped, and not logged
            if a == "W_Emit":
                w.runs[-1] += 1
                r, i = len(w.runs), w.runs[-1]
                ans = self._command(t, {"op": "emit", "report": {"m": self.values(t, r, i), "epoch": i, "run": r, "idx": i}})
                log.append({"a": a, "t": t})
                if i == 1:     # first report of a run: did the process find a checkpoint when it started?
                    log.append({"a": "Loaded", "t": t, "b": ans == "loaded"})
            elif a == "W_Exit":
                if w.runs[-1] == 0:
                    continue
                self._command(t, {"op": "exit"}, wait_exit=True)
                w.state = "ok"
                log.append({"a": a, "t": t})
            elif a == "W_Fail":
                # every second crash is a death by signal (negative return code) instead of exit code 1
                self.nfail = getattr(self, "nfail", 0) + 1
                self._command(t, {"op": "fail", "how": "signal" if self.nfail % 2 == 1 else "exit"}, wait_exit=True)
                w.state = "fail"
                log.append({"a": a, "t": t})
            # (stops from outside the tuner are not part of this binding)

    # ---- the code under test is called through super(); harness-side bookkeeping around it
    def _all_trial_results(self, trial_ids: List[int]):
        if not self._in_stop_all:
            self._observe()
        self._in_poll = not self._in_stop_all
        try:
            return super()._all_trial_results(trial_ids)
        finally:
            self._in_poll = False

    def stdout(self, trial_id: int):
        """The poll of the LocalBackend is not atomic: it derives the status of a trial from the process and then parses
        the log.  Worker events may fall between the two reads: for every second (poll, trial) pair the events scheduled for
        the NEXT observation point are released right after the log has been read.  With the library's read order (status
        first) such a poll is equivalent to an atomic one taken before these events, so they are logged after the Fetch
        event; a back-end that reads in the other order hands out a final status with a stale log."""
        lines = super().stdout(trial_id)
        if getattr(self, "_in_poll", False) and (self.obs + trial_id) % 2 == 0:
            nxt = self.script.wev.get(self.obs, [])
            mine = [e for e in nxt if e[1] == trial_id]
            if mine:
                self.script.wev[self.obs] = [e for e in nxt if e[1] != trial_id]
                self._run_events(mine, self._mid_log)
        return lines

    def _schedule(self, trial_id: int, config):
        if trial_id in self.workers:
            self.workers[trial_id].state = "busy"
            self.workers[trial_id].runs.append(0)
        else:
            self.workers[trial_id] = Worker()
        return super()._schedule(trial_id, config)

    def _reap(self, t):
        w = self.workers[t]
        if w.state == "busy":
            w.state = "killed"
        try:
            self.trial_subprocess[t].wait(timeout=ACK_TIMEOUT)
        except Exception as exc:
            raise HarnessTimeout(f"killed worker of trial {t} does not end: {exc!r}")

    def _pause_trial(self, trial_id, result):
        super()._pause_trial(trial_id, result)
        self._reap(trial_id)

    def _stop_trial(self, trial_id, result):
        super()._stop_trial(trial_id, result)
        self._reap(trial_id)
        if self._in_stop_all:
            self._stop_all_set.append(trial_id)

    def delete_checkpoint(self, trial_id: int):
        self.log.append({"a": "Delete", "t": trial_id})
        return super().delete_checkpoint(trial_id)

    def busy_trial_ids(self):
        self._observe()
        r = super().busy_trial_ids()
        self.log.append({"a": "Busy", "S": [int(t) for t, _ in r]})
        return r

    # ---- recording of the public calls
    def fetch_status_results(self, trial_ids):
        st, res = super().fetch_status_results(trial_ids)
        dead = sorted(t for t, (_, s_) in st.items() if s_ == Status.failed)
        vals = [[int(t), int(r["m"]), 0] for t, r in res] if self.log_vals else []
        self.log.append({"a": "Fetch", "n": len(res), "ids": sorted(trial_ids), "dead": dead, "vals": vals,
                         "res": [[t, r["run"], r["idx"]] for t, r in res],
                         "loaded": [[t, r.get("loaded"), r.get("ckreports")] for t, r in res],
                         "st": {str(t): s for t, (_, s) in st.items()}})
        self.log.extend(self._mid_log)        # worker events that fell between the two reads of this poll
        del self._mid_log[:]
        return st, res

    def start_trial(self, config, checkpoint_trial_id=None):
        trial = super().start_trial(config=config, checkpoint_trial_id=checkpoint_trial_id)
        self.log.append({"a": "Start", "t": trial.trial_id,
                         "from": -1 if checkpoint_trial_id is None else checkpoint_trial_id})
        return trial

    def resume_trial(self, trial_id, new_config=None):
        self.log.append({"a": "Resume", "t": trial_id})
        return super().resume_trial(trial_id=trial_id, new_config=new_config)

    def stop_trial(self, trial_id, result=None):
        if not self._in_stop_all:
            self._observe()
            self.log.append({"a": "StopTrial", "t": trial_id})
        return super().stop_trial(trial_id=trial_id, result=result)

    def pause_trial(self, trial_id, result=None):
        self._observe()
        self.log.append({"a": "PauseTrial", "t": trial_id})
        return super().pause_trial(trial_id=trial_id, result=result)

    def stop_all(self):
        self._observe()
        ev = {"a": "StopAll", "S": []}
        self.log.append(ev)
        self._in_stop_all, self._stop_all_set = True, ev["S"]
        try:
            return super().stop_all()
        finally:
            self._in_stop_all = False

    def kill_everything(self):
        """Harness clean-up (after the run): no puppet survives."""
        for p in self.trial_subprocess.values():
            try:
                p.kill()
                p.wait(timeout=10)
            except Exception:
                pass
