"""Driving ``scheduler.suggest`` of real schedulers along environment histories (C06 / C16)."""
import copy
import random

import numpy as np
import pickle
from datetime import datetime
from typing import Any, Dict, List, Optional

import dill

from harness import shim  # noqa: F401
from syne_tune.backend.trial_status import Trial
from syne_tune.config_space import choice, finrange, lograndint, loguniform, ordinal, randint, uniform

METRIC, RES, MAXRES = "m", "epoch", "epochs"

# ---- spaces: [name, kind, l, u, n]; the python domain and its value list
SPACES = {
    "s1": [("a", "int", 1, 4, 0), ("b", "cat", 0, 0, 2)],
    "s2": [("a", "ord", 0, 0, 3), ("b", "fin", 0, 0, 3)],
    "s3": [("a", "int", 2, 2, 0), ("b", "cat", 0, 0, 3)],
    "s4": [("a", "int", 0, 5, 0), ("b", "fin", 0, 0, 4), ("c", "cat", 0, 0, 1)],
    "s5": [("a", "cat", 0, 0, 3), ("b", "ord", 0, 0, 4)],
    "s6": [("a", "int", 1, 2, 0), ("b", "int", 3, 5, 0)],
    "s7": [("a", "logint", 1, 4, 0), ("b", "cat", 0, 0, 2)],
    "s8": [("a", "logint", 2, 9, 0), ("b", "int", 0, 1, 0)],
    "sc": [("a", "cont", 0, 0, 1), ("b", "cont", 0, 0, 1)],     # uniform(0, 1) x uniform(0, 1)
    # continuous domains whose bounds do not survive the encoding round trip exactly ((u - l) + l, exp(log(u)))
    "sb": [("a", "cont", 0, 0, 2), ("b", "cont", 0, 0, 3)],     # uniform(0.3, 0.9) x loguniform(1e-3, 0.1)
    "sd": [("a", "cont", 0, 0, 4), ("b", "cont", 0, 0, 2), ("c", "int", 1, 3, 0)],   # loguniform(1e-5, 0.1) x uniform(0.3, 0.9) x randint
}
CONT = {1: ("lin", 0.0, 1.0), 2: ("lin", 0.3, 0.9), 3: ("log", 1e-3, 0.1), 4: ("log", 1e-5, 0.1)}
CAT = ["red", "green", "blue", "pink"]
ORD = [10, 20, 40, 80, 160]


def domain_values(kind, l, u, n):
    if kind in ("int", "logint"):
        return list(range(l, u + 1))
    if kind == "cat":
        return CAT[:n]
    if kind == "ord":
        return ORD[:n]
    if kind == "fin":
        return [2 + 3 * i for i in range(n)]          # finrange(2, 2 + 3 (n - 1), n, cast_int=True)
    if kind == "cont":
        return [CONT[n][1], CONT[n][2]]               # (initial configurations on the bounds)
    raise ValueError(kind)


def make_space(name, with_const=True, maxres: Optional[int] = None):
    cs: Dict[str, Any] = {}
    for (hp, kind, l, u, n) in SPACES[name]:
        if kind == "int":
            cs[hp] = randint(l, u)
        elif kind == "logint":
            cs[hp] = lograndint(l, u)
        elif kind == "cont":
            sc_, lo, hi = CONT[n]
            cs[hp] = uniform(lo, hi) if sc_ == "lin" else loguniform(lo, hi)
        elif kind == "cat":
            cs[hp] = choice(CAT[:n])
        elif kind == "ord":
            cs[hp] = ordinal(ORD[:n], kind="equal")
        elif kind == "fin":
            cs[hp] = finrange(2, 2 + 3 * (n - 1), n, cast_int=True)
    if with_const:
        cs["const_s"] = "keep-me"
        cs["const_i"] = 7
    if maxres is not None:
        cs[MAXRES] = maxres
    return cs


def doms_of(name):
    return [{"kind": k, "l": l, "u": u, "n": n} for (_, k, l, u, n) in SPACES[name]]


def p2e_configs(name, p2e_idx, inexact=False):
    """p2e given as index lists (-1 = missing) -> list of partial config dicts.  inexact: numerical values are given the way
    users write them -- a float for an integer (3.0), a value slightly off the grid (which the library casts onto it)."""
    out = []
    for k, p in enumerate(p2e_idx):
        d = {}
        for (hp, kind, l, u, n), i in zip(SPACES[name], p):
            if i >= 0:
                v = domain_values(kind, l, u, n)[i]
                if inexact and kind in ("int", "logint", "fin"):
                    v = float(v) + (0.25 if k % 2 == 0 else 0.0)        # 3.25 -> 3, 5.0 -> 5
                d[hp] = v
        out.append(d)
    return out


def project(name, cs, config) -> dict:
    """config -> event fields: indices + the bits the specification asks for."""
    idx, types = [], True
    for (hp, kind, l, u, n) in SPACES[name]:
        v = config.get(hp)
        if kind == "cont":
            ok = isinstance(v, float) and CONT[n][1] <= v <= CONT[n][2]
            types = types and isinstance(v, float)
            idx.append(0 if ok else -1)
            continue
        vals = domain_values(kind, l, u, n)
        want = cs[hp].value_type
        if v is None or not isinstance(v, want) or isinstance(v, bool):
            types = types and (v is not None and type(v).__name__ == want.__name__)
        try:
            idx.append(vals.index(v))
        except ValueError:
            idx.append(-1)
    keys = all(k in config for k in cs)
    # (the max_resource_attr entry is overwritten with the milestone by design)
    consts = all(config.get(k) == v and type(config.get(k)) is type(v) for k, v in cs.items()
                 if not hasattr(v, "sample") and k != MAXRES)
    return {"c": idx, "keys": bool(keys), "consts": bool(consts), "types": bool(types)}


# ---- schedulers under test
def make_scheduler(kind: str, name: str, p2e, seed: int, mode="min"):
    from syne_tune.optimizer.schedulers import FIFOScheduler, HyperbandScheduler, PopulationBasedTraining
    from syne_tune.optimizer.schedulers.synchronous import (SynchronousGeometricHyperbandScheduler,
                                                            GeometricDifferentialEvolutionHyperbandScheduler)
    common = dict(metric=METRIC, mode=mode, random_seed=seed)
    if p2e is not None:
        common["points_to_evaluate"] = p2e
    if kind.startswith("fifo_"):
        cs = make_space(name)
        so = {"debug_log": False}
        if kind == "fifo_bayesopt":
            so["num_init_random"] = 3
        if kind == "fifo_bayesopt_small":
            # the surrogate model is fitted to a random sub-sample of at most 3 observations (state converter), and the
            # refit of its parameters is skipped for two of three suggestions (skip predicate with its own counter)
            so.update(num_init_random=3, max_size_data_for_model=3, opt_skip_period=3, opt_skip_init_length=3)
            return cs, FIFOScheduler(cs, searcher="bayesopt", search_options=so, **common)
        if kind == "fifo_grid_dup":
            so["allow_duplicates"] = True       # the grid is walked through again and again
            return cs, FIFOScheduler(cs, searcher="grid", search_options=so, **common)
        if kind == "fifo_random_restrict":
            # suggestions restricted to a given list of configurations (the first six of the space)
            import itertools
            names = [hp for (hp, k_, l, u, n) in SPACES[name]]
            vals = [domain_values(k_, l, u, n) for (hp, k_, l, u, n) in SPACES[name]]
            so["restrict_configurations"] = [dict(zip(names, v)) for v in itertools.islice(itertools.product(*vals), 6)]
            return cs, FIFOScheduler(cs, searcher="random", search_options=so, **common)
        if kind == "fifo_random_restrict_dup":
            # duplicates allowed AND suggestions restricted to the first six configurations: the exclusion list then only
            # holds the configurations of failed trials
            import itertools
            names = [hp for (hp, k_, l, u, n) in SPACES[name]]
            vals = [domain_values(k_, l, u, n) for (hp, k_, l, u, n) in SPACES[name]]
            so["restrict_configurations"] = [dict(zip(names, v)) for v in itertools.islice(itertools.product(*vals), 6)]
            so["allow_duplicates"] = True
            return cs, FIFOScheduler(cs, searcher="random", search_options=so, **common)
        if kind == "fifo_random_dup":
            so["allow_duplicates"] = True      # the exclusion list then only holds the configurations of failed trials
            return cs, FIFOScheduler(cs, searcher="random", search_options=so, **common)
        return cs, FIFOScheduler(cs, searcher=kind[5:], search_options=so, **common)
    if kind.startswith("hbdeep_"):
        # deeper multi-fidelity GP set-up (rung levels 1, 3; max 9) so that the searcher's target resource changes
        cs = make_space(name, maxres=9)
        return cs, HyperbandScheduler(cs, searcher=kind[7:], search_options={"debug_log": False, "num_init_random": 2},
                                      resource_attr=RES, max_resource_attr=MAXRES, grace_period=1, reduction_factor=3,
                                      type="stopping", **common)
    if kind.startswith("hbt_"):
        # every rung-system type with the random searcher (C16: dill round trips of the rung bookkeeping)
        typ = kind[4:]
        cs = make_space(name, maxres=3)
        kw = dict(searcher="random", search_options={"debug_log": False}, resource_attr=RES, max_resource_attr=MAXRES,
                  grace_period=1, reduction_factor=3 if typ != "pasha" else 2, type=typ, **common)
        if typ == "cost_promotion":
            kw["cost_attr"] = "cost"
        if typ.startswith("rush"):
            kw["rung_system_kwargs"] = {"num_threshold_candidates": 1}
        return cs, HyperbandScheduler(cs, **kw)
    if kind == "moasha":
        from syne_tune.optimizer.schedulers.multiobjective import MOASHA
        cs = make_space(name, maxres=3)
        cs2 = {k: v for k, v in cs.items() if k != MAXRES}
        return cs2, MOASHA(cs2, metrics=[METRIC, "m2"], mode=[mode, "max"], time_attr=RES, max_t=3, grace_period=1, reduction_factor=3)
    if kind.startswith("hb_"):
        cs = make_space(name, maxres=3)
        so = {"debug_log": False}
        if kind in ("hb_bayesopt", "hb_hypertune"):
            so["num_init_random"] = 3
        typ = "promotion" if kind.endswith("_promo") else "stopping"
        srch = kind[3:].replace("_promo", "")
        return cs, HyperbandScheduler(cs, searcher=srch, search_options=so, resource_attr=RES, max_resource_attr=MAXRES,
                                      grace_period=1, reduction_factor=3, type=typ, **common)
    if kind == "synchb":
        cs = make_space(name, maxres=3)
        return cs, SynchronousGeometricHyperbandScheduler(cs, searcher="random", resource_attr=RES, max_resource_attr=MAXRES,
                                                          grace_period=1, reduction_factor=3, search_options={"debug_log": False}, **common)
    if kind == "dehb":
        cs = make_space(name, maxres=3)
        return cs, GeometricDifferentialEvolutionHyperbandScheduler(cs, resource_attr=RES, max_resource_attr=MAXRES,
                                                                    grace_period=1, reduction_factor=3,
                                                                    search_options={"debug_log": False}, **common)
    if kind == "pbt":
        cs = make_space(name, maxres=3)
        return cs, PopulationBasedTraining(cs, resource_attr=RES, max_t=3, population_size=2, perturbation_interval=1,
                                           search_options={"debug_log": False}, **common)
    if kind == "median":
        from syne_tune.optimizer.schedulers import MedianStoppingRule
        cs = make_space(name, maxres=3)
        base = FIFOScheduler(cs, searcher="random", search_options={"debug_log": False}, **common)
        return cs, MedianStoppingRule(base, resource_attr=RES, grace_time=1, grace_population=2)
    if kind == "regevo":
        from syne_tune.optimizer.schedulers.searchers.regularized_evolution import RegularizedEvolution
        cs = make_space(name)
        srch = RegularizedEvolution(cs, metric=METRIC, mode=mode, population_size=3, sample_size=2, random_seed=seed,
                                    points_to_evaluate=p2e)
        return cs, FIFOScheduler(cs, searcher=srch, metric=METRIC, mode=mode, random_seed=seed)
    raise ValueError(kind)


# searchers that promise not to suggest the configuration of a failed trial again although they may repeat themselves
NOFAIL = {"fifo_random_dup": True, "fifo_random_restrict_dup": True}
NOREPEAT = {"fifo_random_restrict_dup": False, "fifo_grid_dup": False, "fifo_random_restrict": False, "hbdeep_hypertune": True, "hbt_pasha": True, "hbt_rush_stopping": True, "hbt_rush_promotion": True, "hbt_cost_promotion": True, "moasha": False,
            "median": True, "hbdeep_bayesopt": True, "fifo_random_dup": False, "fifo_random": True, "fifo_grid": True, "fifo_bayesopt": True, "fifo_bayesopt_small": True, "hb_random": True, "hb_random_promo": True,
            "hb_bayesopt": True, "hb_hypertune": True, "synchb": True, "dehb": False, "pbt": False, "regevo": False}


class Episode:
    def __init__(self, kind, name, p2e_idx, seed, sched=None, cs=None, mode="min", own_global_rng=False):
        if kind == "moasha":
            p2e_idx = []            # MOASHA takes no initial configurations (and has no default first one)
        self.kind, self.name, self.p2e_idx, self.seed = kind, name, p2e_idx, seed
        # schedulers that draw from the process-wide generators (MOASHA samples with numpy's global state): every episode
        # owns its copy of the two global generator states and installs it around each call, so that twins in one
        # process do not feed on each other's draws
        self.own_global_rng = own_global_rng      # (off for C11, where drawing from a global generator IS the defect)
        _r = random.Random(seed * 7919 + 13)
        self._py_state = _r.getstate()
        self._np_state = np.random.RandomState(seed * 104729 + 7).get_state()
        self.sign = 1.0 if mode == "min" else -1.0       # C15: the "max" twin sees the negated metric
        if sched is None:
            p2e = None if p2e_idx is None else p2e_configs(name, p2e_idx, inexact=(seed % 3 == 2))
            cs, sched = make_scheduler(kind, name, p2e, seed, mode=mode)
        self.cs, self.sched = cs, sched
        self.ev: List[dict] = []
        self.trials: Dict[int, Trial] = {}
        self.level: Dict[int, int] = {}
        self.state: Dict[int, str] = {}
        self.limit: Dict[int, int] = {}
        self.next_id = 0
        self.crashed = False
        self.outputs: List[Any] = []     # everything the scheduler answered (for twin comparison)

    def _crash(self, where, exc):
        self.crashed = True
        self.ev.append({"a": "Crash", "where": where, "exc": repr(exc)[:300]})
        self.outputs.append(("crash", where))

    def suggest(self):
        if self.crashed:
            return
        try:
            s = self.sched.suggest(trial_id=self.next_id)
        except Exception as exc:
            return self._crash("suggest", exc)
        if s is None:
            self.ev.append({"a": "None"})
            self.outputs.append(None)
            return
        if not s.spawn_new_trial_id:
            t = int(s.checkpoint_trial_id)
            self.ev.append({"a": "Resume", "t": t})
            self.outputs.append(("resume", t, None if s.config is None else sorted(s.config.items(), key=str)))
            if s.config is not None:
                self.trials[t].config = s.config
                self.limit[t] = int(s.config.get(MAXRES, 3))
            self.state[t] = "running"
            return
        t = self.next_id
        self.next_id += 1
        trial = Trial(trial_id=t, config=s.config, creation_time=datetime.now())
        self.trials[t] = trial
        self.level[t] = 0
        self.state[t] = "running"
        self.limit[t] = int(s.config.get(MAXRES, 3)) if isinstance(s.config.get(MAXRES, 3), int) else 3
        if self.kind.startswith("hbdeep_"):
            self.limit[t] = 9
        e = {"a": "Suggest", "t": t, "clone": s.checkpoint_trial_id is not None}
        e.update(project(self.name, self.cs, s.config))
        self.ev.append(e)
        self.outputs.append(("new", t, sorted(s.config.items(), key=str),
                             None if s.checkpoint_trial_id is None else int(s.checkpoint_trial_id)))
        try:
            self.sched.on_trial_add(trial)
        except Exception as exc:
            return self._crash("on_trial_add", exc)

    def result(self, t, v=None):
        if self.crashed or self.state.get(t) != "running" or self.level[t] >= self.limit[t]:
            return
        self.level[t] += 1
        r = self.level[t]
        val = self.sign * (float((5 * t + 3 * r) % 7 + 0.125 * ((3 * t + r) % 5)) if v is None else float(v))
        try:
            d = self.sched.on_trial_result(self.trials[t], {METRIC: val, RES: r, "cost": float(r), "m2": float((3 * t + 5 * r) % 4)})
        except Exception as exc:
            return self._crash("on_trial_result", exc)
        self.ev.append({"a": "Result", "t": t, "r": r, "d": d})
        self.outputs.append(("decision", t, r, d))
        if d in ("STOP", "PAUSE"):
            self.state[t] = "paused" if d == "PAUSE" else "stopped"
            try:
                self.sched.on_trial_remove(self.trials[t])
            except Exception as exc:
                return self._crash("on_trial_remove", exc)

    def fail(self, t):
        if self.crashed or self.state.get(t) != "running":
            return
        self.state[t] = "failed"
        try:
            self.sched.on_trial_error(self.trials[t])
        except Exception as exc:
            return self._crash("on_trial_error", exc)
        self.ev.append({"a": "Fail", "t": t})

    def complete(self, t):
        if self.crashed or self.state.get(t) != "running" or self.level.get(t, 0) == 0:
            return
        self.state[t] = "completed"
        r = self.level[t]
        try:
            self.sched.on_trial_complete(self.trials[t], {METRIC: self.sign * float((5 * t + 3 * r) % 7 + 0.125 * ((3 * t + r) % 5)), RES: r,
                                                          "cost": float(r), "m2": float((3 * t + 5 * r) % 4)})
        except Exception as exc:
            return self._crash("on_trial_complete", exc)
        self.ev.append({"a": "Complete", "t": t})

    def step(self, h):
        if not self.own_global_rng:
            return self._step(h)
        keep_py, keep_np = random.getstate(), np.random.get_state()
        random.setstate(self._py_state)
        np.random.set_state(self._np_state)
        try:
            self._step(h)
        finally:
            self._py_state, self._np_state = random.getstate(), np.random.get_state()
            random.setstate(keep_py)
            np.random.set_state(keep_np)

    def _step(self, h):
        a = h["a"]
        if a == "Suggest":
            self.suggest()
        elif a == "Result":
            self.result(h["t"])
        elif a == "Fail":
            self.fail(h["t"])
        elif a == "Complete":
            self.complete(h["t"])

    def restore_dill(self):
        """What Tuner.save / Tuner.load do to the scheduler."""
        self.sched = dill.loads(dill.dumps(self.sched))

    def restore_state(self):
        """searcher.get_state -> pickle -> clone_from_state (random, grid, GP searchers)."""
        srch = self.sched.searcher
        state = pickle.loads(pickle.dumps(srch.get_state()))
        new = srch.clone_from_state(state)
        # the clone is installed the way a scheduler installs a searcher object
        new.configure_scheduler(self.sched)
        if hasattr(self.sched, "_searcher"):
            self.sched._searcher = new
        else:
            self.sched.searcher = new

    def trace(self, tid):
        p2e = [[-1] * len(SPACES[self.name])] if self.p2e_idx is None else [list(p) for p in self.p2e_idx]
        # (a continuous domain is one abstract value for the specification: "inside the bounds")
        p2e = [[min(i, 0) if SPACES[self.name][c][1] == "cont" else i for c, i in enumerate(p)] for p in p2e]
        # grid search on a log-scaled integer enumerates its own grid, which need not contain every integer
        grid_sub = self.kind == "fifo_grid" and any(k == "logint" for (_, k, _, _, _) in SPACES[self.name])
        cont = any(k == "cont" for (_, k, _, _, _) in SPACES[self.name])
        conf = {"doms": doms_of(self.name), "p2e": p2e, "norepeat": NOREPEAT[self.kind] and not cont,
                "finite": not grid_sub and not cont, "nofail": (NOFAIL.get(self.kind, False) or NOREPEAT[self.kind]) and not cont}
        return {"id": tid, "conf": conf, "ev": self.ev}
