"""Driving the REAL ``Tuner.run`` along environment schedules and recording its events.

Three harness-side collaborators (no repository change):

* ``ScriptedBackend``  – subclass of the library's ``TrialBackend`` implementing only the
  abstract primitives the way ``LocalBackend`` does (append-only report stream per trial,
  stop / pause flags, immediate kill).  The *generic* logic under test
  (``fetch_status_results``, ``start_trial``, ``resume_trial``, ``pause_trial``,
  ``stop_trial``, ``stop_all``) is the library's.
* ``ScriptedScheduler`` – answers ``suggest`` / ``on_trial_result`` from a script.
* ``Recorder``         – one event per TunerLoop action (see specs/TunerLoop.tla).

Worker events of a script are attached to the index of the next *observation point* of the
backend (poll, kill, final stop_all), which is exactly where the specification lets
them happen (``ObsPoint``).
"""
import contextlib
import io
import os
import shutil
import collections
from pathlib import Path
from typing import Any, Dict, List, Optional

from harness import shim  # noqa: F401
from syne_tune import Tuner
from syne_tune.backend.trial_backend import TrialBackend
from syne_tune.backend.trial_status import Status, TrialResult
from syne_tune.config_space import randint
from syne_tune.constants import ST_WORKER_COST, ST_WORKER_TIMESTAMP
from syne_tune.optimizer.scheduler import SchedulerDecision, TrialScheduler, TrialSuggestion
from syne_tune.results_callback import StoreResultsCallback
from syne_tune.tuner_callback import TunerCallback
from syne_tune.util import experiment_path

OBS_ACTIONS = {"T_Fetch", "T_Stop", "T_Pause", "T_StopAll", "T_Busy"}


class Script:
    """Environment schedule: worker events per observation point + answers of the scripted
    scheduler / stop criterion.  Compiled from a TLC behaviour or drawn at random."""

    def __init__(self):
        self.wev: Dict[int, List[tuple]] = {}
        self.decisions: Dict[int, List[str]] = {}   # per trial, in delivery order (the merge order of a
        #                                              batch is fixed by the worker time stamps in the real run)
        self.suggestions: List[tuple] = []
        self.crit: List[bool] = []
        self.specdel: Dict[int, List[int]] = {}   # loop-end index -> trials whose checkpoint the remover deletes

    @staticmethod
    def from_hist(hist: List[dict]) -> "Script":
        s = Script()
        obs = 0
        pend = {}
        le = 0
        for h in hist:
            a = h["a"]
            if a == "T_SpecDelete":
                s.specdel.setdefault(le, []).append(h["t"])
            elif a == "T_LoopEnd":
                le += 1
            if a in ("W_Emit", "W_Exit", "W_Fail", "W_ExtStop", "W_Gone"):
                s.wev.setdefault(obs, []).append((a, h["t"]))
            elif a in OBS_ACTIONS:
                obs += 1
            elif a == "T_Exploit":
                pend[h["t"]] = h["s"]
            elif a == "T_Result":
                d = h["d"]
                if h["t"] in pend:      # PBT-type exploit: "STOP@s" = queue a clone of s, then answer STOP
                    d = f"{d}@{pend.pop(h['t'])}"
                s.decisions.setdefault(h["t"], []).append(d)
            elif a == "T_SuggestNew":
                s.suggestions.append(("new", h.get("from", -1)))
            elif a == "T_SuggestResume":
                s.suggestions.append(("resume", h["t"]))
            elif a == "T_SuggestNone":
                s.suggestions.append(("none",))
            elif a == "T_StopCond":
                s.crit.append(bool(h["b"]))
        return s

    def to_json(self):
        return {"wev": {str(k): v for k, v in self.wev.items()},
                "decisions": {str(k): v for k, v in self.decisions.items()},
                "suggestions": self.suggestions, "crit": self.crit,
                "specdel": {str(k): v for k, v in self.specdel.items()}}

    @staticmethod
    def from_json(d) -> "Script":
        s = Script()
        s.wev = {int(k): [tuple(x) for x in v] for k, v in d["wev"].items()}
        s.decisions = {int(k): list(v) for k, v in d["decisions"].items()}
        s.suggestions = [tuple(x) for x in d["suggestions"]]
        s.crit = list(d["crit"])
        s.specdel = {int(k): list(v) for k, v in d.get("specdel", {}).items()}
        return s


class Worker:
    def __init__(self):
        self.state = "busy"        # busy | ok | fail | killed
        self.runs = [0]            # reports written per run


class ScriptedBackend(TrialBackend):
    def __init__(self, script: Script, log: list, values=None, delete_checkpoints=False, maxrep=99):
        super().__init__(delete_checkpoints=delete_checkpoints)
        self.script = script
        self.log = log
        self.obs = 0
        self.workers: Dict[int, Worker] = {}
        self.metrics: Dict[int, List[dict]] = {}
        self.stop_flag, self.pause_flag = set(), set()
        self.ext_stopped = set()
        self.clock = 0
        self.values = values or (lambda t, r, i: float((7 * t + 3 * r + 5 * i) % 11))
        self.maxrep = maxrep
        self._in_stop_all = False
        self._stop_all_set = None
        self.ckpt: Dict[int, str] = {}
        self.log_vals = False
        self.linger = False
        self.extra_metrics = None

    # ---- environment
    def _observe(self):
        """An observation point: let the scripted worker events of this slot happen first."""
        for (a, t) in self.script.wev.get(self.obs, []):
            w = self.workers.get(t)
            if a == "W_Gone":
                if w is not None and w.state == "stopping":
                    w.state = "killed"
                    self.log.append({"a": a, "t": t})
                continue
            if w is None or w.state != "busy":
                continue  # not enabled in the real run: skipped, and not logged
            if a == "W_Emit":
                if w.runs[-1] >= self.maxrep:
                    continue
                w.runs[-1] += 1
                r, i = len(w.runs), w.runs[-1]
                self.clock += 1
                self.metrics[t].append({"m": self.values(t, r, i), "epoch": i, "run": r, "idx": i,
                                        ST_WORKER_TIMESTAMP: self.clock})
                if self.extra_metrics is not None:      # further metrics derived from the first one (C17)
                    self.metrics[t][-1].update(self.extra_metrics(self.metrics[t][-1]["m"]))
                if self.log_vals:   # campaigns with value / cost criteria: cumulative cost (t + 1) * position
                    self.metrics[t][-1][ST_WORKER_COST] = float((t + 1) * len(self.metrics[t]))
                self.ckpt[t] = "present"
            elif a == "W_Exit":
                if w.runs[-1] == 0:
                    continue
                w.state = "ok"
            elif a == "W_Fail":
                w.state = "fail"
            elif a == "W_ExtStop":
                w.state = "killed"
                self.stop_flag.add(t)
                self.ext_stopped.add(t)
            self.log.append({"a": a, "t": t})
        # fairness of the environment (the model's SF on worker exits): once the script is used up, processes that are
        # still running end on their own, so that a loop waiting for them (wait_trial_completion_when_stopping) returns
        last = max(self.script.wev) if self.script.wev else -1
        if self.obs > last + 2:
            for t, w in sorted(self.workers.items()):
                if w.state == "busy":
                    w.state = "ok"
                    self.log.append({"a": "W_Exit", "t": t})
        self.obs += 1

    def _status(self, t):
        if t in self.stop_flag:
            return Status.stopped
        if t in self.pause_flag:
            return Status.paused
        return {"busy": Status.in_progress, "ok": Status.completed, "fail": Status.failed,
                "killed": Status.stopped, "stopping": Status.stopping}[self.workers[t].state]

    # ---- primitives of the abstract backend
    def _all_trial_results(self, trial_ids: List[int]) -> List[TrialResult]:
        if not self._in_stop_all:
            self._observe()
        return [self._trial_dict[t].add_results(metrics=list(self.metrics[t]), status=self._status(t),
                                                training_end_time=None) for t in trial_ids]

    def _schedule(self, trial_id: int, config: Dict[str, Any]):
        # the scripted worker "loads its checkpoint" the moment it is scheduled: what it finds is reported as a Loaded event
        # right after the Start / Resume event (binds the monitor's checkpoint store; copy must come before scheduling)
        self._found_ckpt = self.ckpt.get(trial_id) == "present"
        if trial_id in self.workers:
            w = self.workers[trial_id]
            w.state = "busy"
            w.runs.append(0)
        else:
            self.workers[trial_id] = Worker()
            self.metrics[trial_id] = []

    def _kill(self, t):
        w = self.workers[t]
        if w.state == "busy":
            # linger: the job keeps its worker in state "stopping" until the environment lets it go (SageMaker-like)
            w.state = "stopping" if (self.linger and not self._in_stop_all) else "killed"

    def _pause_trial(self, trial_id: int, result: Optional[dict]):
        self._kill(trial_id)
        self.pause_flag.add(trial_id)

    def _stop_trial(self, trial_id: int, result: Optional[dict]):
        self._kill(trial_id)
        self.stop_flag.add(trial_id)
        if self._in_stop_all:
            self._stop_all_set.append(trial_id)

    def _resume_trial(self, trial_id: int):
        self.pause_flag.discard(trial_id)
        # a stop from outside concerned the previous run: the resumed run is a new job
        if trial_id in self.ext_stopped:
            self.ext_stopped.discard(trial_id)
            self.stop_flag.discard(trial_id)

    def copy_checkpoint(self, src_trial_id: int, tgt_trial_id: int):
        if self.ckpt.get(src_trial_id) == "present":
            self.ckpt[tgt_trial_id] = "present"

    def delete_checkpoint(self, trial_id: int):
        self.log.append({"a": "Delete", "t": trial_id})
        if trial_id in self.ckpt:
            self.ckpt[trial_id] = "deleted"

    def busy_trial_ids(self):
        # only called by the tuner with start_jobs_without_delay = False: an observation of the processes
        self._observe()
        r = [(t, Status.in_progress) for t, w in self.workers.items() if self._status(t) == Status.in_progress]
        r += [(t, Status.stopping) for t, w in self.workers.items() if w.state == "stopping"]
        self.log.append({"a": "Busy", "S": [t for t, _ in r]})
        return r

    def stdout(self, trial_id: int) -> List[str]:
        return []

    def stderr(self, trial_id: int) -> List[str]:
        return []

    def entrypoint_path(self) -> Path:
        return Path("scripted_worker.py")

    def set_entrypoint(self, entry_point: str):
        pass

    # ---- recording of the public calls (the generic code under test is called through super())
    def fetch_status_results(self, trial_ids):
        st, res = super().fetch_status_results(trial_ids)
        dead = sorted(t for t, (_, s_) in st.items() if s_ == Status.failed or (s_ == Status.stopped and t in self.ext_stopped))
        vals = [[int(t), int(r["m"]), int(r.get(ST_WORKER_COST, 0))] for t, r in res] if self.log_vals else []
        self.log.append({"a": "Fetch", "n": len(res), "ids": sorted(trial_ids), "dead": dead, "vals": vals,
                         "res": [[t, r["run"], r["idx"]] for t, r in res],
                         "st": {str(t): s for t, (_, s) in st.items()}})
        return st, res

    def start_trial(self, config, checkpoint_trial_id=None):
        trial = super().start_trial(config=config, checkpoint_trial_id=checkpoint_trial_id)
        self.log.append({"a": "Start", "t": trial.trial_id,
                         "from": -1 if checkpoint_trial_id is None else checkpoint_trial_id})
        self.log.append({"a": "Loaded", "t": trial.trial_id, "b": bool(self._found_ckpt)})
        return trial

    def resume_trial(self, trial_id, new_config=None):
        self.log.append({"a": "Resume", "t": trial_id})
        r = super().resume_trial(trial_id=trial_id, new_config=new_config)
        self.log.append({"a": "Loaded", "t": trial_id, "b": bool(self._found_ckpt)})
        return r

    def stop_trial(self, trial_id, result=None):
        if not self._in_stop_all:
            self._observe()   # the process keeps running (and writing) until it is killed
            self.log.append({"a": "StopTrial", "t": trial_id})
        return super().stop_trial(trial_id=trial_id, result=result)

    def pause_trial(self, trial_id, result=None):
        self._observe()
        self.log.append({"a": "PauseTrial", "t": trial_id})
        return super().pause_trial(trial_id=trial_id, result=result)

    def stop_all(self):
        self._observe()
        ev = {"a": "StopAll", "S": []}
        self.log.append(ev)
        self._in_stop_all, self._stop_all_set = True, ev["S"]
        try:
            return super().stop_all()
        finally:
            self._in_stop_all = False


class ScriptedScheduler(TrialScheduler):
    def __init__(self, script: Script, kind: str):
        super().__init__(config_space={"x": randint(0, 1000), "epochs": 99})
        self.script, self.kind = script, kind
        self.n_sug = 0
        self.n_res: Dict[int, int] = {}
        self.paused, self.stopped = set(), set()
        self._trial_decisions_stack = collections.deque()    # same name and discipline as PopulationBasedTraining

    def _suggest(self, trial_id: int) -> Optional[TrialSuggestion]:
        k = self.n_sug
        self.n_sug += 1
        s = self.script.suggestions[k] if k < len(self.script.suggestions) else ("new", -1)
        if s[0] == "none":
            return None
        # The real run may leave the scripted behaviour (results of one poll are ordered by the workers' time stamps,
        # worker events that are not enabled are skipped).  The scripted scheduler stays a LEGAL scheduler whatever
        # happens: it resumes only a trial it has paused, and clones only from a trial it knows and has not stopped.
        if s[0] == "resume" and s[1] in self.paused:
            self.paused.discard(s[1])
            # every second resume changes the configuration of the trial (as promotion-type Hyperband does)
            new_cfg = {"x": 1000 + k, "epochs": 99} if k % 2 == 0 else None
            return TrialSuggestion.resume_suggestion(trial_id=s[1], config=new_cfg)
        src = s[1] if s[0] == "new" and len(s) > 1 and s[1] is not None and s[1] >= 0 else None
        if src is not None and self._trial_decisions_stack:
            self._trial_decisions_stack.pop()
        if src is not None and (src >= trial_id or src in self.stopped):
            src = None
        return TrialSuggestion.start_suggestion({"x": trial_id, "epochs": 99}, checkpoint_trial_id=src)

    def on_trial_result(self, trial, result) -> str:
        t = trial.trial_id
        k = self.n_res.get(t, 0)
        self.n_res[t] = k + 1
        ds = self.script.decisions.get(t, [])
        d = ds[k] if k < len(ds) else SchedulerDecision.CONTINUE
        if "@" in d:
            d, src = d.split("@")
            if int(src) != t and int(src) not in self.stopped:
                self._trial_decisions_stack.append((int(src), None))
        if d == SchedulerDecision.STOP:
            self.stopped.add(t)
        elif d == SchedulerDecision.PAUSE:
            self.paused.add(t)
        return d

    def on_trial_error(self, trial):
        self.paused.discard(trial.trial_id)
        self.stopped.add(trial.trial_id)

    def metric_names(self):
        return ["m"]

    def metric_mode(self):
        return "min"


class ScriptedCriterion:
    def __init__(self, script: Script):
        self.script, self.k, self.held = script, 0, False

    def __call__(self, status) -> bool:
        k = self.k
        self.k += 1
        b = self.script.crit[k] if k < len(self.script.crit) else True
        self.held = self.held or b      # monotone, like every count / time based criterion
        return self.held


class LivelockError(Exception):
    """The tuning loop keeps iterating although the environment script is long exhausted."""


class Recorder(TunerCallback):
    MAX_ITER = 3000

    def __init__(self, log):
        self.log = log
        self.n = 0

    def on_loop_start(self):
        self.n += 1
        if self.n > self.MAX_ITER:
            raise LivelockError(f"more than {self.MAX_ITER} loop iterations")
        self.log.append({"a": "Iter"})

    def on_trial_complete(self, trial, result):
        self.log.append({"a": "CbComplete", "t": trial.trial_id})

    def on_start_trial(self, trial):
        # a run-away experiment (far beyond every budget the campaigns use) is cut: the trace specification is
        # instantiated for MAX_TRIALS trial ids
        if trial.trial_id >= self.MAX_TRIALS:
            raise LivelockError(f"more than {self.MAX_TRIALS} trials started")

    MAX_TRIALS = 38


class ScriptedRemover(TunerCallback):
    """An early-removal callback (speculative removal explicitly requested): at the end of the k-th iteration it
    deletes the checkpoints the script names -- but, like every such callback, only of trials that are paused."""

    def __init__(self, script: Script):
        self.script, self.k, self.tuner = script, 0, None

    def on_tuning_start(self, tuner):
        self.tuner = tuner

    def on_loop_end(self):
        k = self.k
        self.k += 1
        seen = self.tuner.tuning_status.last_trial_status_seen
        for t in self.script.specdel.get(k, []):
            if seen.get(t) == Status.paused:
                self.tuner.trial_backend.delete_checkpoint(t)


def instrument_scheduler(sched, log):
    """Wrap the public methods of a (scripted or real) scheduler INSTANCE; the class is untouched."""
    o_sug, o_res = sched.suggest, sched.on_trial_result
    o_add, o_rem, o_cmp, o_err = sched.on_trial_add, sched.on_trial_remove, sched.on_trial_complete, sched.on_trial_error

    def suggest(trial_id):
        s = o_sug(trial_id)
        if s is None:
            log.append({"a": "Exhausted"})
        else:
            log.append({"a": "Suggest", "new": bool(s.spawn_new_trial_id),
                        "t": -1 if s.checkpoint_trial_id is None else s.checkpoint_trial_id})
        return s

    def on_trial_result(trial, result):
        stack = getattr(sched, "_trial_decisions_stack", None)      # PBT-type clone queue (read, never written)
        n0 = len(stack) if stack is not None else 0
        d = o_res(trial, result)
        if stack is not None:
            for j in range(n0, len(stack)):
                log.append({"a": "Queue", "s": int(stack[j][0])})
        cx = trial.config.get("x") if isinstance(trial.config, dict) else None
        log.append({"a": "Result", "t": trial.trial_id, "r": result.get("run", 0), "i": result.get("idx", 0), "d": d,
                    "cfgx": cx if isinstance(cx, int) else -1})
        return d

    def on_trial_add(trial):
        log.append({"a": "Add", "t": trial.trial_id})
        return o_add(trial)

    def on_trial_remove(trial):
        log.append({"a": "Remove", "t": trial.trial_id})
        return o_rem(trial)

    def on_trial_complete(trial, result):
        log.append({"a": "Complete", "t": trial.trial_id})
        return o_cmp(trial, result)

    def on_trial_error(trial):
        log.append({"a": "Error", "t": trial.trial_id})
        return o_err(trial)

    sched.suggest, sched.on_trial_result = suggest, on_trial_result
    sched.on_trial_add, sched.on_trial_remove = on_trial_add, on_trial_remove
    sched.on_trial_complete, sched.on_trial_error = on_trial_complete, on_trial_error


_RUN_NO = [0]


def run_tuner(conf: dict, script: Script, scheduler=None, stop_criterion=None, values=None,
              store: Optional[StoreResultsCallback] = None, extra_callbacks=(), keep_dir=False, backend=None) -> dict:
    """One complete real ``Tuner.run``.  Returns {"conf", "ev", ...} (a trace)."""
    if backend is not None:
        log = backend.log
    else:
        log = []
        backend = ScriptedBackend(script, log, values=values, delete_checkpoints=bool(conf.get("del", False)))
        backend.log_vals = conf.get("ckind") in ("minmetric", "maxmetric", "cost", "minmax")
        backend.linger = bool(conf.get("linger", False))
        if conf.get("m2"):      # a second metric, in reverse order of the first one
            backend.extra_metrics = lambda m: {"m2": 12.0 - m}
    sched = scheduler if scheduler is not None else ScriptedScheduler(script, conf.get("kind", "stop"))
    instrument_scheduler(sched, log)
    crit = stop_criterion if stop_criterion is not None else ScriptedCriterion(script)
    store = store or StoreResultsCallback()
    _RUN_NO[0] += 1
    name = f"verif-{os.getpid()}-{_RUN_NO[0]}"
    tuner = Tuner(
        trial_backend=backend, scheduler=sched, stop_criterion=crit, n_workers=conf["nw"], sleep_time=0,
        results_update_interval=conf.get("update_interval", 1e9), print_update_interval=1e9,
        max_failures=conf.get("maxfail", 1), tuner_name=name, suffix_tuner_name=False,
        asynchronous_scheduling=conf.get("async", True),
        wait_trial_completion_when_stopping=conf.get("wait", False),
        start_jobs_without_delay=conf.get("sjwd", True),
        callbacks=[store, Recorder(log)] + ([ScriptedRemover(script)] if conf.get("spec") and scheduler is None else [])
        + list(extra_callbacks), save_tuner=False,
    )
    o_stop = tuner._stop_condition

    def stop_condition():
        b = o_stop()
        log.append({"a": "StopCrit", "b": bool(b)})
        return b

    tuner._stop_condition = stop_condition
    kind, named, msg = "normal", -1, ""
    printed = io.StringIO()
    with contextlib.redirect_stdout(printed):
        try:
            tuner.run()
        except ValueError as e:
            msg = str(e)
            if "failed" in msg and msg.startswith("Trial - "):
                kind = "failure"
                try:
                    named = int(msg.split()[2])
                except Exception:
                    named = -1
            elif "no metrics got observed" in msg:
                kind = "nometrics"
            else:
                kind = "other"
        except LivelockError as e:
            kind, msg = "livelock", repr(e)
        except AssertionError as e:
            kind, msg = "assertion", repr(e)
        except Exception as e:  # the code under test raised on a legal schedule
            if getattr(e, "harness_failure", False):
                raise
            kind, msg = "other", repr(e)
    ts = tuner.tuning_status
    cnt = [] if ts is None else [ts.num_trials_started, ts.num_trials_completed, ts.num_trials_failed,
                                 ts.num_trials_finished]
    log.append({"a": "End", "kind": kind, "named": named, "cnt": cnt, "msg": msg[:200]})
    out = {"conf": conf, "ev": log, "tuner": tuner, "backend": backend, "store": store, "stdout": printed.getvalue()}
    if not keep_dir:
        shutil.rmtree(experiment_path(tuner_name=name), ignore_errors=True)
    return out


def trace_conf(conf: dict) -> dict:
    """The cf record of the trace specification (bounds of the model are lifted)."""
    c = {"nw": conf["nw"], "maxrep": 99, "maxruns": 99, "maxfail": conf.get("maxfail", 1),
         "kind": conf.get("kind", "stop"), "async": bool(conf.get("async", True)),
         "wait": bool(conf.get("wait", False)), "del": bool(conf.get("del", False)), "failb": 99, "extb": 99,
         "ckind": conf.get("ckind", "script"), "k": conf.get("k", 0), "k2": conf.get("k2", 0), "emptyexit": True, "mayexhaust": True,
         "r3": False, "r13": False, "also": bool(conf.get("also", False)), "sim": bool(conf.get("sim", False)), "r8": False, "sjwd": bool(conf.get("sjwd", True)),
         "spec": bool(conf.get("spec", False)), "linger": bool(conf.get("linger", False))}
    return c


TRACE_FIELDS = {
    "W_Emit": ("t",), "W_Exit": ("t",), "W_Fail": ("t",), "W_ExtStop": ("t",), "W_Gone": ("t",),
    "Fetch": ("n", "dead", "vals"), "Result": ("t", "r", "i", "d"), "StopTrial": ("t",), "PauseTrial": ("t",),
    "Remove": ("t",), "Complete": ("t",), "Error": ("t",), "CbComplete": ("t",), "Start": ("t", "from"),
    "Add": ("t",), "Resume": ("t",), "Delete": ("t",), "Exhausted": (), "StopCrit": ("b",), "Iter": (),
    "StopAll": ("S",), "End": ("kind", "named", "cnt"), "Removable": ("S",), "Queue": ("s",), "Busy": ("S",), "Loaded": ("t", "b"),
}


def to_trace(run: dict, tid: int) -> dict:
    ev = []
    for e in run["ev"]:
        f = TRACE_FIELDS.get(e["a"])
        if f is None:
            continue  # e.g. "Suggest": informational
        ev.append({"a": e["a"], **{k: e[k] for k in f}})
    return {"id": tid, "conf": trace_conf(run["conf"]), "ev": ev}
