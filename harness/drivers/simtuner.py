"""Binding 2 of C10 (and the simulator half of C01 / C02 / C12): the real ``Tuner.run`` with ``SimulatorCallback`` and
real schedulers on the tabular simulator back-end.  Two traces are recorded from the same run:

* a SimBackend trace (public back-end calls with what they returned and the simulated clock), judged by
  SimBackend_Trace;
* a TunerLoop trace (scheduler / back-end / callback calls), judged by TunerLoop_Trace.  Worker events are not observable
  in the simulator: they are reconstructed from what ``fetch_status_results`` returned (so the delivery clauses are
  judged in the SimBackend trace, the TunerLoop trace judges budget, protocol, criterion and counters).
"""
import contextlib
import io
import os
import shutil
from typing import Dict, List

import numpy as np

from harness import shim  # noqa: F401
from harness.drivers import simbackend as SB
from harness.drivers import tunerloop as TL
from syne_tune import StoppingCriterion, Tuner
from syne_tune.backend.simulator_backend.simulator_callback import SimulatorCallback
from syne_tune.backend.trial_status import Status
from syne_tune.config_space import randint
from syne_tune.constants import ST_TUNER_TIME
from syne_tune.util import experiment_path

NLEV = 4


def big_table(ncfg=8, nseed=2, nlev=NLEV, kind="mono"):
    """tab[c][s][l] = (metric, elapsed micro-seconds); metric encodes (c, s, l) uniquely and is used as the objective
    through a second column `loss`."""
    u = SB.UNIT
    tab = []
    for c in range(1, ncfg + 1):
        per_seed = []
        for s in range(1, nseed + 1):
            lv = []
            el = 0
            for l in range(1, nlev + 1):
                step = (3 + (c * 5 + s * 3 + l * 7) % 9) * 8 * u
                el = el + step
                e = el
                if kind == "nonmono" and (c + l) % 3 == 0:
                    e = el - step - 2 * u          # a non-monotone entry (the back-end repairs it)
                lv.append((c * 100 + s * 10 + l, max(e, u)))
            per_seed.append(lv)
        tab.append(per_seed)
    return tab


def make_blackbox(tab_us):
    import pandas as pd
    from syne_tune.blackbox_repository.blackbox_tabular import BlackboxTabular
    ncfg, nseed, nlev = len(tab_us), len(tab_us[0]), len(tab_us[0][0])
    rows = [(a, b) for a in range(1, ncfg // 2 + 1) for b in (0, 1)]
    hps = pd.DataFrame({"hp_a": [r[0] for r in rows], "hp_b": [r[1] for r in rows]})
    ev = np.zeros((ncfg, nseed, nlev, 3))
    for c in range(ncfg):
        for s in range(nseed):
            for l in range(nlev):
                ev[c, s, l, 0] = tab_us[c][s][l][0]
                ev[c, s, l, 1] = tab_us[c][s][l][1] * SB.TICK
                ev[c, s, l, 2] = float(((c + 1) * 37 + (l + 1) * 11 + s * 5) % 23) + 1.0 / (l + 1)     # the objective
    return BlackboxTabular(hyperparameters=hps, configuration_space={"hp_a": randint(1, ncfg // 2), "hp_b": randint(0, 1)},
                           fidelity_space={"epoch": randint(1, nlev)}, objectives_evaluations=ev,
                           objectives_names=["m", "elapsed", "loss"])


def cfg_index(config):
    return (int(config["hp_a"]) - 1) * 2 + int(config["hp_b"]) + 1


def make_scheduler(kind, cs, seed):
    from syne_tune.optimizer.schedulers import FIFOScheduler, HyperbandScheduler, PopulationBasedTraining
    from syne_tune.optimizer.schedulers.synchronous import SynchronousGeometricHyperbandScheduler
    common = dict(metric="loss", mode="min", random_seed=seed)
    so = {"debug_log": False, "allow_duplicates": True}
    if kind == "fifo":
        return FIFOScheduler(cs, searcher="random", search_options=so, **common)
    if kind in ("hb_stopping", "hb_promotion", "hb_pasha"):
        return HyperbandScheduler(cs, searcher="random", search_options=so, resource_attr="epoch", max_resource_attr="epochs",
                                  grace_period=1, reduction_factor=2, type=kind[3:], **common)
    if kind == "hb_promotion_nomra":
        return HyperbandScheduler(cs, searcher="random", search_options=so, resource_attr="epoch", max_t=NLEV,
                                  grace_period=1, reduction_factor=2, type="promotion", **common)
    if kind == "synchb":
        return SynchronousGeometricHyperbandScheduler(cs, searcher="random", search_options=so, resource_attr="epoch",
                                                      max_resource_attr="epochs", grace_period=1, reduction_factor=2, **common)
    if kind == "pbt":
        return PopulationBasedTraining(cs, resource_attr="epoch", max_t=NLEV, population_size=3, perturbation_interval=1,
                                       search_options={"debug_log": False}, **common)
    raise ValueError(kind)


# (PBT needs checkpoint directories on disk for its copy step and is not run on the simulator)
KINDS = ["fifo", "hb_stopping", "hb_promotion", "hb_promotion_nomra", "hb_pasha", "synchb"]


def run(kind, seed, n_workers, conf, criterion_kwargs, tuner_conf=None):
    """conf: simulator configuration in micro-seconds (see simbackend.make_backend)."""
    clock = SB.freeze_real_time()
    np.random.seed(seed)
    be = SB.make_backend(conf) if "blackbox" not in conf else None
    from syne_tune.backend.simulator_backend.simulator_backend import SimulatorConfig
    from syne_tune.blackbox_repository.simulated_tabular_backend import UserBlackboxBackend
    bb = make_blackbox(conf["tab"])
    mra = conf["mra"]
    sc = SimulatorConfig(delay_on_trial_result=conf["dres"] * SB.TICK, delay_complete_after_final_report=conf["dfin"] * SB.TICK,
                         delay_complete_after_stop=conf["dcstop"] * SB.TICK, delay_start=conf["dstart"] * SB.TICK,
                         delay_stop=conf["dstop"] * SB.TICK)
    be = UserBlackboxBackend(blackbox=bb, elapsed_time_attr="elapsed", max_resource_attr="epochs" if mra else None,
                             seed=None, support_checkpointing=conf["ckpt"], simulator_config=sc,
                             tuner_sleep_time=conf["sleep"] * SB.TICK)
    cs = dict(bb.configuration_space, epochs=NLEV)
    sched = make_scheduler(kind, cs, seed)
    sim_ev: List[dict] = []      # SimBackend vocabulary
    tl_ev: List[dict] = []       # TunerLoop vocabulary
    mode: Dict[int, str] = {}
    runs: Dict[int, int] = {}
    emitted: Dict[int, int] = {}
    exited = set()

    def now():
        return SB.ticks(be.time_keeper.time())

    o_start, o_resume, o_fetch = be.start_trial, be.resume_trial, be.fetch_status_results
    o_pause, o_stop, o_stopall = be.pause_trial, be.stop_trial, be.stop_all
    in_stop_all = [False]

    ncall = [0]

    def outside():
        """Real time passes outside the back-end (tuning loop and scheduler compute): 1 or 2 model ticks before every
        third call of the back-end."""
        ncall[0] += 1
        if conf.get("outside", True) and ncall[0] % 3 == 1 and not in_stop_all[0]:
            d = (1 + ncall[0] % 2) * SB.UNIT
            clock.outside(d)
            sim_ev.append({"a": "Outside", "d": d})

    def start_trial(config, checkpoint_trial_id=None):
        outside()
        trial = o_start(config=config, checkpoint_trial_id=checkpoint_trial_id)
        t = trial.trial_id
        mode[t], runs[t], emitted[t] = "running", 1, 0
        sim_ev.append({"a": "Start", "t": t, "c": cfg_index(config), "lim": int(config.get("epochs", NLEV)) if mra else NLEV, "now": now()})
        tl_ev.append({"a": "Start", "t": t, "from": -1 if checkpoint_trial_id is None else int(checkpoint_trial_id)})
        return trial

    def resume_trial(trial_id, new_config=None):
        outside()
        cfg = new_config if new_config is not None else be._trial_dict[trial_id].config
        tl_ev.append({"a": "Resume", "t": trial_id})
        trial = o_resume(trial_id=trial_id, new_config=new_config)
        mode[trial_id] = "running"
        exited.discard(trial_id)
        runs[trial_id] += 1
        emitted[trial_id] = 0
        sim_ev.append({"a": "Resume", "t": trial_id, "lim": int(cfg.get("epochs", NLEV)) if mra else NLEV, "now": now()})
        return trial

    def fetch_status_results(trial_ids):
        outside()
        st, res = o_fetch(trial_ids)
        out = []
        for t, r in res:
            out.append([int(t), int(r["epoch"]), int(round(r["m"])), SB.ticks(r[ST_TUNER_TIME])])
            # reconstruct the worker side for the TunerLoop trace
            emitted[t] = emitted.get(t, 0) + 1
            r["run"], r["idx"] = runs[t], emitted[t]
            if pre_emitted.get(t, 0) > 0:
                pre_emitted[t] -= 1         # already logged when busy_trial_ids() revealed that the process had ended
            else:
                tl_ev.append({"a": "W_Emit", "t": int(t)})
        for t, (_, s_) in st.items():
            if s_ == Status.completed and t not in exited:
                tl_ev.append({"a": "W_Exit", "t": int(t)})
                exited.add(t)
        sim_ev.append({"a": "Fetch", "ids": sorted(int(t) for t in trial_ids), "res": out, "now": now()})
        tl_ev.append({"a": "Fetch", "n": len(res), "dead": [], "vals": [[int(t), int(round(r["m"])), 0] for t, r in res]})
        return st, res

    pre_emitted: Dict[int, int] = {}
    o_busy = be.busy_trial_ids

    def busy_trial_ids():
        """start_jobs_without_delay = False.  The call may reveal that a process has ended before any poll reported it: its
        remaining reports (queued in the back-end) and its exit are logged now, in that order."""
        r = o_busy()
        busy = {int(t) for t, _ in r}
        for t in sorted(mode):
            if (mode[t] == "running" and t not in busy and t not in exited
                    and be._trial_dict[t].status in (Status.completed, Status.failed)):
                n = len(be._next_results_to_fetch.get(t, []))
                for _ in range(n):
                    tl_ev.append({"a": "W_Emit", "t": int(t)})
                pre_emitted[t] = pre_emitted.get(t, 0) + n
                tl_ev.append({"a": "W_Exit", "t": int(t)})
                exited.add(t)
        tl_ev.append({"a": "Busy", "S": sorted(busy)})
        return r
    be.busy_trial_ids = busy_trial_ids

    def pause_trial(trial_id, result=None):
        outside()
        tl_ev.append({"a": "PauseTrial", "t": trial_id})
        o_pause(trial_id=trial_id, result=result)
        if mode.get(trial_id) == "running":
            sim_ev.append({"a": "Pause", "t": trial_id, "lv": int(result["epoch"]) if result else 0, "now": now()})
        mode[trial_id] = "paused"

    def stop_trial(trial_id, result=None):
        outside()
        if not in_stop_all[0]:
            tl_ev.append({"a": "StopTrial", "t": trial_id})
        else:
            stop_all_set.append(trial_id)
        o_stop(trial_id=trial_id, result=result)
        if mode.get(trial_id) == "running":
            sim_ev.append({"a": "Stop", "t": trial_id, "now": now()})
        mode[trial_id] = "stopped"

    stop_all_set: List[int] = []

    def stop_all():
        ev = {"a": "StopAll", "S": stop_all_set}
        tl_ev.append(ev)
        in_stop_all[0] = True
        try:
            return o_stopall()
        finally:
            in_stop_all[0] = False

    be.start_trial, be.resume_trial, be.fetch_status_results = start_trial, resume_trial, fetch_status_results
    be.pause_trial, be.stop_trial, be.stop_all = pause_trial, stop_trial, stop_all
    TL.instrument_scheduler(sched, tl_ev)
    cb = SimulatorCallback()
    o_sleep = cb.on_tuning_sleep

    def on_tuning_sleep(sleep_time):
        o_sleep(sleep_time)
        sim_ev.append({"a": "Sleep", "now": now()})
    cb.on_tuning_sleep = on_tuning_sleep
    name = f"verif-sim-{os.getpid()}-{seed}-{kind.replace('_', '-')}"
    tc = tuner_conf or {}
    tuner = Tuner(trial_backend=be, scheduler=sched, stop_criterion=StoppingCriterion(**criterion_kwargs), n_workers=n_workers,
                  sleep_time=0, callbacks=[cb, TL.Recorder(tl_ev)], results_update_interval=1e9, print_update_interval=1e9,
                  tuner_name=name, suffix_tuner_name=False, save_tuner=False, max_failures=3,
                  asynchronous_scheduling=tc.get("async", True),
                  wait_trial_completion_when_stopping=tc.get("wait", False),
                  start_jobs_without_delay=tc.get("sjwd", True))
    o_cond = tuner._stop_condition

    def stop_condition():
        b = o_cond()
        tl_ev.append({"a": "StopCrit", "b": bool(b)})
        return b
    tuner._stop_condition = stop_condition
    kind_end, msg = "normal", ""
    with contextlib.redirect_stdout(io.StringIO()):
        try:
            tuner.run()
        except TL.LivelockError as e:
            kind_end, msg = "livelock", repr(e)
        except AssertionError as e:
            kind_end, msg = "assertion", repr(e)
        except Exception as e:
            kind_end, msg = "other", repr(e)
    ts = tuner.tuning_status
    cnt = [] if ts is None else [ts.num_trials_started, ts.num_trials_completed, ts.num_trials_failed, ts.num_trials_finished]
    tl_ev.append({"a": "End", "kind": kind_end, "named": -1, "cnt": cnt, "msg": msg[:200]})
    if kind_end != "normal":
        sim_ev.append({"a": "Crash", "where": "Tuner.run", "exc": msg[:200]})
    shutil.rmtree(experiment_path(tuner_name=name), ignore_errors=True)
    sim_trace = {"id": 0, "conf": SB.trace_conf(dict(conf, seed=0)), "ev": sim_ev}
    return sim_trace, tl_ev, tuner
