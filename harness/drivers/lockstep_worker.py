"""Training script for the lock-step binding of the real LocalBackend (harness/drivers/localbackend.py).

A puppet: it waits for numbered command files in its trial directory (the parent of the checkpoint directory the
backend passes as --st_checkpoint_dir), executes one command, acknowledges it, and goes on.

    cmd_<n>  = {"op": "emit", "report": {...}}   -> write a checkpoint, Reporter()(**report), ack
               {"op": "exit"}                    -> ack, exit code 0
               {"op": "fail"}                    -> ack, exit code 1   ("how": "signal" -> ack, killed by SIGKILL)
    ack_<n>  = written after the command has taken effect (for exit / fail: immediately before the process ends)

A resumed run continues with the first command that has no acknowledgement yet."""
import json
import os
import sys
import time
from pathlib import Path


def ack(ctl, n, text):
    tmp = ctl / f".ack_{n}.tmp"
    tmp.write_text(text)
    os.replace(tmp, ctl / f"ack_{n}")


def main():
    args = sys.argv[1:]
    ck = None
    for i, a in enumerate(args):
        if a == "--st_checkpoint_dir":
            ck = Path(args[i + 1])
    assert ck is not None, args
    ctl = ck.parent
    from syne_tune import Reporter
    report = Reporter()
    # what a real script does first: load the checkpoint if there is one
    state = {"reports": 0, "loaded": False}
    if (ck / "state.json").exists():
        state = json.loads((ck / "state.json").read_text())
        state["loaded"] = True
    n = len([f for f in os.listdir(ctl) if f.startswith("ack_")])     # (temporary files start with a dot)
    deadline = time.time() + 120.0
    while time.time() < deadline:
        f = ctl / f"cmd_{n}"
        if not f.exists():
            time.sleep(0.002)
            continue
        try:
            cmd = json.loads(f.read_text())
        except Exception:
            time.sleep(0.002)      # the harness is still writing
            continue
        if cmd["op"] == "emit":
            state["reports"] += 1
            os.makedirs(ck, exist_ok=True)
            (ck / "state.json").write_text(json.dumps(state))
            report(**cmd["report"], loaded=int(bool(state["loaded"])), ckreports=state["reports"])
            ack(ctl, n, "loaded" if state["loaded"] else "fresh")
        elif cmd["op"] == "exit":
            ack(ctl, n, "ok")
            sys.exit(0)
        elif cmd["op"] == "fail":
            ack(ctl, n, "ok")
            if cmd.get("how") == "signal":       # dies like a process hit by the OOM killer: negative return code
                import signal
                os.kill(os.getpid(), signal.SIGKILL)
                time.sleep(5)
            sys.exit(1)
        n += 1
        deadline = time.time() + 120.0
    sys.exit(3)      # nobody talks to us any more


if __name__ == "__main__":
    main()
