"""Binding 2 of the tuner properties: the real ``Tuner.run`` with every real scheduler that imports in this
sandbox, on the scripted poll-type back-end whose workers run freely under a seeded environment policy.

The recorded events are the TunerLoop vocabulary; TunerLoop_Trace judges them (C01, C02, C12, C13, C20)."""
import random
from typing import Dict, Optional

from harness import shim  # noqa: F401
from harness.drivers import tunerloop as D
from syne_tune.backend.trial_status import Status
from syne_tune.config_space import randint, uniform
from syne_tune.constants import ST_WORKER_TIMESTAMP

METRIC, METRIC2, RES, MAXRES = "m", "m2", "epoch", "epochs"
MAX_T = 4


class FreeRunningBackend(D.ScriptedBackend):
    """Workers report epoch after epoch between observation points; the environment policy (seeded) decides how many
    reports become visible per observation, who crashes, who is stopped from outside."""

    def __init__(self, log, seed, p_emit=0.6, p_fail=0.0, p_ext=0.0, checkpointing=True, delete_checkpoints=False,
                 max_fail=99, max_res_attr=None):
        super().__init__(D.Script(), log, delete_checkpoints=delete_checkpoints)
        self.rnd = random.Random(seed)
        self.p_emit, self.p_fail, self.p_ext = p_emit, p_fail, p_ext
        self.checkpointing = checkpointing
        self.level: Dict[int, int] = {}      # last epoch reported (over all runs, when checkpointing)
        self.run_epoch: Dict[int, int] = {}  # epoch counter of the current run
        self.nfail = 0
        self.max_fail = max_fail
        self.max_res_attr = max_res_attr

    def _limit(self, t):
        cfg = self._trial_dict[t].config if t in self._trial_dict else {}
        if self.max_res_attr is not None and isinstance(cfg.get(self.max_res_attr), int):
            return cfg[self.max_res_attr]
        return MAX_T

    def _schedule(self, trial_id, config):
        new = trial_id not in self.workers
        super()._schedule(trial_id, config)
        if new:
            self.level[trial_id] = 0
            self._cfg = config
        self.run_epoch[trial_id] = self.level[trial_id] if self.checkpointing else 0
        self._pending_cfg = {trial_id: config}

    def value(self, t, epoch):
        return float(((t * 7 + 3) % 11) + 12.0 / (epoch + 1) + ((t * epoch) % 3) * 0.25)

    def _observe(self):
        for t, w in sorted(self.workers.items()):
            if w.state != "busy":
                continue
            cfg = getattr(self, "_cfgs", {}).get(t)
            for _ in range(3):
                limit = self._limit(t)
                if self.run_epoch[t] >= limit:
                    w.state = "ok"
                    self.log.append({"a": "W_Exit", "t": t})
                    break
                x = self.rnd.random()
                if x < self.p_emit:
                    self.run_epoch[t] += 1
                    self.level[t] = max(self.level[t], self.run_epoch[t]) if self.checkpointing else self.run_epoch[t]
                    w.runs[-1] += 1
                    r, i = len(w.runs), w.runs[-1]
                    self.clock += 1
                    ep = self.run_epoch[t]
                    self.metrics[t].append({METRIC: self.value(t, ep), METRIC2: float((t * 5 + ep) % 7), RES: ep, "run": r, "idx": i,
                                            "cost": float(ep), ST_WORKER_TIMESTAMP: self.clock})
                    self.ckpt[t] = "present"
                    self.log.append({"a": "W_Emit", "t": t})
                elif x < self.p_emit + self.p_fail and self.nfail < self.max_fail and w.runs[-1] >= 0:
                    w.state = "fail"
                    self.nfail += 1
                    self.log.append({"a": "W_Fail", "t": t})
                    break
                elif x < self.p_emit + self.p_fail + self.p_ext and self.nfail < self.max_fail:
                    w.state = "killed"
                    self.stop_flag.add(t)
                    self.ext_stopped.add(t)
                    self.nfail += 1
                    self.log.append({"a": "W_ExtStop", "t": t})
                    break
                else:
                    break
        self.obs += 1


def config_space():
    return {"x": uniform(0.0, 1.0), "k": randint(1, 50), MAXRES: MAX_T}


def make_scheduler(kind: str, seed: int, mode="min", early=None):
    from syne_tune.optimizer.schedulers import (FIFOScheduler, HyperbandScheduler, MedianStoppingRule,
                                                PopulationBasedTraining)
    from syne_tune.optimizer.schedulers.synchronous import (SynchronousGeometricHyperbandScheduler,
                                                            GeometricDifferentialEvolutionHyperbandScheduler)
    from syne_tune.optimizer.schedulers.multiobjective import MOASHA
    cs = config_space()
    common = dict(metric=METRIC, mode=mode, random_seed=seed)
    so = {"debug_log": False}
    if kind == "fifo_random":
        return FIFOScheduler(cs, searcher="random", search_options=so, **common)
    if kind == "fifo_bayesopt":
        return FIFOScheduler(cs, searcher="bayesopt", search_options=dict(so, num_init_random=4), **common)
    if kind == "median":
        base = FIFOScheduler(cs, searcher="random", search_options=so, **common)
        return MedianStoppingRule(base, resource_attr=RES, grace_time=1, grace_population=2)
    if kind in ("hbbo_stopping", "hbbo_promotion", "hbht_promotion", "dyhpo"):
        # model-based searchers under the real tuner (few random initial points so that the surrogate model is used)
        typ = "dyhpo" if kind == "dyhpo" else kind.split("_")[1]
        srch = {"hbbo": "bayesopt", "hbht": "hypertune", "dyhp": "dyhpo"}[kind[:4]]
        kw = dict(searcher=srch, search_options=dict(so, num_init_random=3, opt_maxiter=5, opt_nstarts=1), resource_attr=RES,
                  max_resource_attr=MAXRES, grace_period=1, type=typ, **common)
        if kind != "dyhpo":
            kw["reduction_factor"] = 2
        return HyperbandScheduler(cs, **kw)
    if kind.startswith("hb_"):
        typ = kind[3:]
        kw = dict(searcher="random", search_options=so, resource_attr=RES, max_resource_attr=MAXRES, grace_period=1,
                  reduction_factor=2, type=typ, **common)
        if typ == "cost_promotion":
            kw["cost_attr"] = "cost"
        if typ.startswith("rush"):
            kw["rung_system_kwargs"] = {"num_threshold_candidates": 1}
        if early is not None:
            # speculative early removal of checkpoints of paused trials, explicitly requested
            kw["early_checkpoint_removal_kwargs"] = dict(early)
        return HyperbandScheduler(cs, **kw)
    if kind == "synchb":
        return SynchronousGeometricHyperbandScheduler(cs, searcher="random", search_options=so, resource_attr=RES,
                                                      max_resource_attr=MAXRES, grace_period=1, reduction_factor=2, **common)
    if kind == "dehb":
        return GeometricDifferentialEvolutionHyperbandScheduler(cs, search_options=so, resource_attr=RES, max_resource_attr=MAXRES,
                                                                grace_period=1, reduction_factor=2, **common)
    if kind == "pbt":
        return PopulationBasedTraining(cs, resource_attr=RES, max_t=MAX_T, population_size=3, perturbation_interval=1,
                                       search_options=so, **common)
    if kind == "moasha":
        return MOASHA(cs, metrics=[METRIC, METRIC2], mode=["min", "max"], time_attr=RES, max_t=MAX_T, grace_period=1,
                      reduction_factor=2)
    raise ValueError(kind)


GP_KINDS = ["fifo_bayesopt", "hbbo_stopping", "hbbo_promotion", "hbht_promotion", "dyhpo"]
KINDS = ["fifo_random", "median", "hb_stopping", "hb_promotion", "hb_pasha", "hb_cost_promotion", "hb_rush_stopping",
         "synchb", "dehb", "pbt", "moasha"]
PAUSE_RESUME = {"hb_promotion", "hb_pasha", "hb_cost_promotion", "synchb", "dehb", "hbbo_promotion", "hbht_promotion", "dyhpo"}


def run(kind: str, seed: int, n_workers: int, started_budget: int, p_fail=0.0, p_ext=0.0, delete_checkpoints=False,
        checkpointing=True, maxfail=3, async_sched=True, wait=False, early=None, sjwd=True, mode="min"):
    """One real Tuner.run with a real scheduler; returns the TunerLoop trace."""
    import numpy as np
    from syne_tune import StoppingCriterion
    np.random.seed(seed)
    random.seed(seed)
    log = []
    backend = FreeRunningBackend(log, seed, p_fail=p_fail, p_ext=p_ext, checkpointing=checkpointing,
                                 delete_checkpoints=delete_checkpoints, max_fail=6, max_res_attr=MAXRES)
    sched = make_scheduler(kind, seed, mode=mode, early=early)
    conf = {"spec": early is not None, "nw": n_workers, "kind": "pause", "maxfail": maxfail, "async": async_sched, "wait": wait,
            "del": delete_checkpoints, "ckind": "started", "k": started_budget, "sjwd": sjwd}
    # the scheduler may declare trials as never-resumable (synchronous Hyperband): logged as Removable events
    if hasattr(sched, "trials_checkpoints_can_be_removed"):
        orig = sched.trials_checkpoints_can_be_removed

        def wrapped():
            res = orig()
            if res:
                log.append({"a": "Removable", "S": [int(x) for x in res]})
            return res
        sched.trials_checkpoints_can_be_removed = wrapped
    out = D.run_tuner(conf, D.Script(), scheduler=sched, stop_criterion=StoppingCriterion(max_num_trials_started=started_budget),
                      backend=backend)
    tr = D.to_trace(out, 0)
    return tr, out
