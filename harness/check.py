"""Entry point:  /venv/bin/python -m harness.check <ID> --tier quick|thorough [--replay path]"""
import argparse
import importlib
import os
import sys
import traceback


def _generic_replay(pid, path):
    """Re-drive the single behaviour of a replay file through the real code and re-validate it."""
    import json
    with open(path) as f:
        rp = json.load(f)
    d = rp.get("detail", {})
    print(json.dumps(rp.get("signature"), indent=1))
    if d.get("script") is not None and "conf" in d:
        from harness.drivers import tunerloop as D
        from harness.validate import validate
        conf = {k: v for k, v in d["conf"].items()}
        run = D.run_tuner(conf, D.Script.from_json(d["script"]))
        tr = D.to_trace(run, 1)
        v = validate("TunerLoop_Trace", "TunerLoop_Trace.cfg", [tr])[0]
        for e in tr["ev"]:
            print(e)
        print("flags raised on re-drive:", sorted(v.flags or []))
        return 1 if rp["signature"].get("flag") in (v.flags or ()) else 0
    print(json.dumps(d, indent=1)[:4000])
    return 1


def main():
    ap = argparse.ArgumentParser()
    ap.add_argument("pid")
    ap.add_argument("--tier", default=os.environ.get("VERIF_TIER", "quick"))
    ap.add_argument("--replay", default=None)
    a = ap.parse_args()
    if a.tier not in ("quick", "thorough"):
        a.tier = "quick"
    seed = int(os.environ.get("VERIF_SEED", "0") or 0)
    os.environ.setdefault("PYTHONHASHSEED", "0")
    try:
        from harness import shim  # noqa: F401  environment shims before syne_tune imports
        mod = importlib.import_module(f"harness.props.{a.pid.lower()}")
        from harness.report import Report
        if a.replay:
            rc = mod.replay(a.replay) if hasattr(mod, "replay") else _generic_replay(a.pid, a.replay)
            sys.exit(rc)
        rep = Report(a.pid, a.tier, seed)
        mod.run(rep, a.tier, seed)
        rc = rep.finish()
    except SystemExit:
        raise
    except BaseException:  # machinery failure: never a violation
        traceback.print_exc()
        print(f"MACHINERY-FAILURE property={a.pid}")
        sys.exit(2)
    sys.exit(rc)


if __name__ == "__main__":
    main()
