"""Entry point:  /venv/bin/python -m harness.check <ID> --tier quick|thorough [--replay path]"""
import argparse
import importlib
import os
import sys
import traceback


def main():
    ap = argparse.ArgumentParser()
    ap.add_argument("pid")
    ap.add_argument("--tier", default=os.environ.get("VERIF_TIER", "quick"))
    ap.add_argument("--replay", default=None)
    a = ap.parse_args()
    if a.tier not in ("quick", "thorough"):
        a.tier = "quick"
    seed = int(os.environ.get("VERIF_SEED", "0") or 0)
    os.environ.setdefault("PYTHONHASHSEED", "0")
    try:
        from harness import shim  # noqa: F401  environment shims before syne_tune imports
        mod = importlib.import_module(f"harness.props.{a.pid.lower()}")
        from harness.report import Report
        rep = Report(a.pid, a.tier, seed)
        mod.run(rep, a.tier, seed)
        rc = rep.finish()
    except SystemExit:
        raise
    except BaseException:  # machinery failure: never a violation
        traceback.print_exc()
        print(f"MACHINERY-FAILURE property={a.pid}")
        sys.exit(2)
    sys.exit(rc)


if __name__ == "__main__":
    main()
